#!/usr/bin/env python3
"""gen_seed_prompts.py <dir> <ID> [<ID>...] — write the task text for sub-agents that seed a breaking change
(each gets only the text of one property and its own scratch worktree <dir>/<ID> of /repo; nothing from /verif
except the one-line summaries of changes already tried, so that a new kind of change is produced)."""
import glob, json, os, subprocess, sys

T = '''You are helping to test a verification tool. Work ONLY inside the git worktree {wt} (a checkout of the Rust crate `reval`, a small expression/rules evaluator: lalrpop DSL parser in src/reval.lalrpop, Expr AST, async tree-walking interpreter over a dynamic Value type, ruleset builder with user functions and symbols, serde serializer into Value). Do NOT read or write anything under /verif, /repo or other directories of {root}, and do not use the network (there is none; always pass --offline to cargo). IMPORTANT: never use `git stash` (the stash is shared with other people's worktrees); to run something without your change use `git diff -- src > /tmp/{pid}_x.diff && git apply -R /tmp/{pid}_x.diff` and afterwards `git apply /tmp/{pid}_x.diff`. Use `CARGO_TARGET_DIR={wt}/target` (the default) — do not share build directories.

Here is a semantic property the crate is supposed to satisfy:

{prop}

YOUR TASK: produce ONE realistic source change (a "seeded defect") to the crate's src/ (Rust code and/or src/reval.lalrpop) that BREAKS this property, such that:
  1. the crate still compiles and the ENTIRE existing test suite still passes with the change (`cd {wt} && cargo test --offline --workspace --no-fail-fast` — all 211 tests + 2 doctests pass exactly as before; do not edit, add to or delete any existing test);
  2. the breakage is SUBTLE and needs something specific to manifest — an unusual input or boundary value, a particular combination of operand types or values, a multi-step sequence of calls, a specific ordering/interleaving, a failure at a particular point, or (best) TWO cooperating code sites, possibly in different files, that each look fine alone. It must look like a plausible bug or well-meant "improvement" (refactor gone slightly wrong, over-eager optimisation, convenience special case, off-by-one, wrong helper reused, copy-paste slip in a rarely used path ...), not sabotage. Keep it small (a few lines to ~30 lines). A good way to hide it: restructure the surrounding code a little at the same time (extract a helper, introduce a small private type or a lookup table, move code to another module) so that the defect sits inside an otherwise behaviour-preserving refactoring.
  3. it must be DIFFERENT IN KIND from these changes, which were already tried for this property (do not repeat them or trivial variations of them; prefer a different clause of the property statement, a different module, or a different mechanism):
{previous}
  4. you provide a DEMONSTRATION: a standalone program `examples/seed_demo.rs` in the worktree (it may use tokio from dev-dependencies), which exits 0 printing "PROPERTY HOLDS" on the unchanged crate, and exits non-zero (or panics / is killed) printing "PROPERTY VIOLATED: <what>" with your change applied. Run it both ways yourself and confirm. {extra}

Deliver (create the directory {wt}/seed/):
  - {wt}/seed/patch.diff  : `git diff -- src` of your change ONLY (not the demo), applicable with `git apply` to a clean checkout;
  - {wt}/seed/seed_demo.rs : a copy of the demonstration program;
  - {wt}/seed/meta.json   : {{"property": "{pid}", "summary": "<one sentence>", "needs_to_manifest": "<what exposes it>", "why_tests_pass": "<why the suite does not notice>", "commands_run": ["..."], "demo_output_unchanged": "...", "demo_output_changed": "..."}}
Leave the worktree with your change APPLIED to src/ and examples/seed_demo.rs present. In your final message summarise the change in 3-4 sentences and state explicitly that (a) all existing tests pass with the change (run the suite with examples/seed_demo.rs moved aside if the demo is meant not to compile), (b) the demo passes without and fails with the change.'''
EXTRA = {
    'C18': 'For this property the demonstration may instead FAIL TO COMPILE with the change (e.g. it spawns evaluations on a multi-threaded tokio runtime, or asserts Send/Sync bounds on public types / returned futures): then "fails with the change" means `cargo build --offline --example seed_demo` fails.',
    'C19': 'Note: on the unchanged crate print, clone, compare, debug-format, drop and evaluate are ALREADY known to overflow the stack on very deep trees (no depth limit), while parsing, building rulesets, and serializing inputs are safe. Your change must make a currently safe operation unsafe (new unbounded recursion whose depth follows the nesting of the input), or add a new recursive pass; the demo must run the risky operation in a child process or small-stack thread and must avoid the already-known crashing operations (use std::mem::forget on deep trees).',
    'C16': 'Note: on the unchanged crate this property is ALREADY known to fail for: bitwise & | ^ nodes printed without parentheses, unary - / ! under field access or contains, infinite floats (finf), and a field/index access directly after a float/decimal literal or after an identifier named d or f. Your change must introduce a NEW, different violation and the demo must avoid those known cases.',
    'C01': 'Note: on the unchanged crate integer/decimal + - * and unary minus, DateTime +- Duration and Duration - Duration are ALREADY known to panic on overflow; your change must introduce a different panic or silent range loss, and the demo must avoid those known cases.',
}
VERIF = os.path.dirname(os.path.dirname(os.path.abspath(__file__)))
root = sys.argv[1]
props = {}
for l in open(os.path.join(VERIF, 'properties.jsonl')):
    p = json.loads(l)
    props[p['id']] = p
prev = {}
for d in sorted(glob.glob(os.path.join(VERIF, 'seeded/*/meta.json'))):
    pid = os.path.basename(os.path.dirname(d))[:3]
    prev.setdefault(pid, []).append(json.load(open(d)).get('summary', '?'))
for d in sorted(glob.glob(os.path.join(VERIF, 'selftest/mutants/*.diff'))):
    pid = 'C' + os.path.basename(d)[1:3]
    prev.setdefault(pid, []).append(os.path.basename(d)[4:-5].replace('_', ' '))
os.makedirs(root, exist_ok=True)
for pid in sys.argv[2:]:
    p = props[pid]
    prop = "%s — %s\n\n%s\n\n(The property is meant to hold for: %s)" % (pid, p['title'], p['statement'], p['quantifier']['text'])
    pv = '\n'.join('       - ' + x for x in prev.get(pid, [])) or '       (none)'
    wt = os.path.join(root, pid)
    open(os.path.join(root, '%s.prompt.txt' % pid), 'w').write(T.format(wt=wt, root=root, prop=prop, pid=pid, previous=pv, extra=EXTRA.get(pid, '')))
    subprocess.run(['git', '-C', '/repo', 'worktree', 'remove', '--force', wt], stdout=subprocess.DEVNULL, stderr=subprocess.DEVNULL)
    subprocess.check_call(['git', '-C', '/repo', 'worktree', 'add', '-f', '--detach', wt, 'HEAD', '-q'])
print('prompts and worktrees in', root)
