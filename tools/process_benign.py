#!/usr/bin/env python3
"""Run every check against behaviour-preserving refactorings written by sub-agents.
usage: process_benign.py <dir with Cxx/out/rN.diff + meta.json> [only-substring]
Each diff is applied to a plain copy of /repo under /var/tmp (removed afterwards).  Silent patches are stored as
selftest/benign/b_ref_<Cxx>_rN.diff; patches on which a check fires or ends inconclusive are listed for triage
(a firing check is a false alarm of the machinery unless the refactoring turns out not to preserve behaviour)."""
import glob, json, os, shutil, subprocess, sys

VERIF = os.path.dirname(os.path.dirname(os.path.abspath(__file__)))
src = sys.argv[1]
only = sys.argv[2] if len(sys.argv) > 2 else None
ALL = ["C%02d" % i for i in range(1, 20)]
wt = "/var/tmp/ref_wt"
ev = "/var/tmp/ref_ev"
rows = []
for d in sorted(glob.glob(os.path.join(src, "C*", "out", "r*.diff"))):
    pid = d.split("/")[-3]
    name = "%s_%s_%s" % (os.environ.get("BENIGN_PREFIX", "b_ref"), pid, os.path.basename(d)[:-5])
    if only and only not in name:
        continue
    shutil.rmtree(wt, ignore_errors=True)
    subprocess.check_call(["rsync", "-a", "--exclude", ".git", "--exclude", "target", "/repo/", wt + "/"])
    r = subprocess.run(["git", "apply", d], cwd=wt, stdout=subprocess.PIPE, stderr=subprocess.STDOUT, text=True)
    if r.returncode != 0:
        print(name, "PATCH DOES NOT APPLY", r.stdout[:200], flush=True)
        continue
    env = dict(os.environ, VERIF_REPO=wt, VERIF_EVIDENCE_DIR=ev)
    fired, broken = {}, {}
    for c in ALL:
        rr = subprocess.run(["python3", os.path.join(VERIF, "rules", "check.py"), c], env=env, stdout=subprocess.PIPE, stderr=subprocess.STDOUT, text=True)
        lines = [l for l in rr.stdout.splitlines() if not l.startswith("KNOWN-FINDING")]
        if rr.returncode == 1:
            fired[c] = [l.strip()[:300] for l in lines if l.strip().startswith("violation")][:4]
        elif rr.returncode != 0:
            broken[c] = (lines or ["?"])[-1][:300]
    print(name, "fired", sorted(fired), "broken", sorted(broken), flush=True)
    for c, ls in fired.items():
        for l in ls:
            print("     ", c, l, flush=True)
    for c, l in broken.items():
        print("     ", c, l, flush=True)
    if not fired and not broken:
        shutil.copyfile(d, os.path.join(VERIF, "selftest", "benign", name + ".diff"))
    rows.append((name, sorted(fired), sorted(broken)))
shutil.rmtree(wt, ignore_errors=True)
shutil.rmtree(ev, ignore_errors=True)
print("done: %d patches, %d silent" % (len(rows), sum(1 for r in rows if not r[1] and not r[2])))
