#!/usr/bin/env python3
"""process_seed.py <src dir with patch.diff, seed_demo.rs, meta.json> <name>
Confirms a seeded change in a scratch worktree (tests pass with it; demo passes without / fails with it),
runs every check against the patched tree, and stores the result under /verif/seeded/<name>/."""
import json, os, shutil, subprocess, sys, time

src, name = sys.argv[1], sys.argv[2]
VERIF = os.path.dirname(os.path.dirname(os.path.abspath(__file__)))
wt = "/var/tmp/sv_%s" % name
tgt = os.environ.get("SEED_TARGET", "/var/tmp/seed-target")
env = dict(os.environ, CARGO_TARGET_DIR=tgt, CARGO_NET_OFFLINE="true")

def sh(cmd, cwd=None, env=env, timeout=1200):
    r = subprocess.run(cmd, shell=True, cwd=cwd, env=env, stdout=subprocess.PIPE, stderr=subprocess.STDOUT, text=True, timeout=timeout)
    return r.returncode, r.stdout

subprocess.run(["git", "-C", "/repo", "worktree", "remove", "--force", wt], stdout=subprocess.DEVNULL, stderr=subprocess.DEVNULL)
shutil.rmtree(wt, ignore_errors=True)
rc, out = sh("git -C /repo worktree add -f --detach %s HEAD -q" % wt)
assert rc == 0, out
result = {"name": name, "confirmed": False}
try:
    shutil.copyfile(os.path.join(src, "seed_demo.rs"), os.path.join(wt, "examples", "seed_demo.rs"))
    rc0, out0 = sh("cargo run --offline --example seed_demo 2>&1 | tail -5", cwd=wt)
    rc0b, _ = sh("cargo run --offline --example seed_demo >/dev/null 2>&1", cwd=wt)
    result["demo_unchanged"] = {"exit": rc0b, "tail": out0[-400:]}
    os.remove(os.path.join(wt, "examples", "seed_demo.rs"))   # the suite is run without the demo (it may not compile with the change)
    rc, out = sh("git apply %s" % os.path.join(src, "patch.diff"), cwd=wt)
    result["patch_applies"] = rc == 0
    if rc != 0:
        result["error"] = out[-500:]
        raise SystemExit
    rc, out = sh("cargo test --offline --workspace --no-fail-fast 2>&1 | grep -E '^test result|FAILED|error(\\[|:)' | head -12", cwd=wt)
    oks = out.count("test result: ok")
    result["tests_with_change"] = {"ok_suites": oks, "summary": out[-600:]}
    shutil.copyfile(os.path.join(src, "seed_demo.rs"), os.path.join(wt, "examples", "seed_demo.rs"))
    rc1b, _ = sh("cargo run --offline --example seed_demo >/dev/null 2>&1", cwd=wt)
    rc1, out1 = sh("cargo run --offline --example seed_demo 2>&1 | tail -6", cwd=wt)
    result["demo_changed"] = {"exit": rc1b, "tail": out1[-600:]}
    result["confirmed"] = (rc0b == 0 and "PROPERTY HOLDS" in out0 and oks >= 3 and "FAILED" not in out and rc1b != 0)
    # run the checks against the patched tree (without the demo file, which is not part of the change)
    os.remove(os.path.join(wt, "examples", "seed_demo.rs"))
    det = {}
    ev = "/var/tmp/ev_%s" % name
    cenv = dict(os.environ, VERIF_REPO=wt, VERIF_EVIDENCE_DIR=ev)
    ids = ["C%02d" % i for i in range(1, 20)]
    for pid in ids:
        t = time.time()
        r = subprocess.run(["python3", os.path.join(VERIF, "rules", "check.py"), pid], env=cenv, stdout=subprocess.PIPE, stderr=subprocess.STDOUT, text=True)
        lines = [l for l in r.stdout.splitlines() if l.startswith("  violation ")]
        det[pid] = {"exit": r.returncode, "violations": [l[12:300] for l in lines[:4]], "s": round(time.time() - t, 1)}
        if r.returncode not in (0, 1):
            det[pid]["output"] = r.stdout[-400:]
    shutil.rmtree(ev, ignore_errors=True)
    result["checks"] = det
    result["fired"] = [p for p in ids if det[p]["exit"] == 1]
    result["broken"] = [p for p in ids if det[p]["exit"] not in (0, 1)]
finally:
    subprocess.run(["git", "-C", "/repo", "worktree", "remove", "--force", wt], stdout=subprocess.DEVNULL, stderr=subprocess.DEVNULL)
    shutil.rmtree(wt, ignore_errors=True)
dst = os.path.join(VERIF, "seeded", name)
os.makedirs(dst, exist_ok=True)
for fn in ("patch.diff", "seed_demo.rs"):
    shutil.copyfile(os.path.join(src, fn), os.path.join(dst, fn))
meta = {}
try:
    meta = json.load(open(os.path.join(src, "meta.json")))
except Exception as e:
    meta = {"note": "agent meta.json unreadable: %s" % e}
meta["verification_by_main_session"] = result
meta["what_i_ran"] = ["git worktree add /var/tmp/sv_%s HEAD" % name, "cargo run --offline --example seed_demo  (unchanged: expect exit 0)", "git apply patch.diff",
                      "cargo test --offline --workspace --no-fail-fast  (expect all suites ok)", "cargo run --offline --example seed_demo  (expect non-zero)",
                      "VERIF_REPO=<worktree> python3 rules/check.py C01..C19", "git worktree remove --force"]
json.dump(meta, open(os.path.join(dst, "meta.json"), "w"), indent=1)
print(name, "confirmed=%s" % result["confirmed"], "fired=%s" % result.get("fired"), "broken=%s" % result.get("broken"))
