#!/bin/bash
# usage: tools/try_patch.sh <patch.diff> <ID> [<ID>...]
# applies the patch to a plain copy of /repo under /var/tmp (removed afterwards) and runs the given checks against
# it (evidence redirected); /repo itself is not touched.
set -u
patch="$(realpath "$1")"; shift
wt=$(mktemp -d /var/tmp/try_wt.XXXXXX)
export VERIF_EVIDENCE_DIR=$(mktemp -d /var/tmp/verif-ev.XXXXXX)
rsync -a --exclude .git --exclude target /repo/ "$wt/"
( cd "$wt" && git apply "$patch" ) || { echo "patch does not apply"; rm -rf "$wt" "$VERIF_EVIDENCE_DIR"; exit 9; }
export VERIF_REPO="$wt"
for id in "$@"; do
  out=$(python3 /verif/rules/check.py "$id" 2>&1); rc=$?
  echo "== $id exit=$rc"
  echo "$out" | grep -E "VIOLATION|KNOWN-FINDING|INCONCLUSIVE|BROKEN|violation " | cut -c1-${COLS_MAX:-300} | head -${LINES_MAX:-12}
done
rm -rf "$wt" "$VERIF_EVIDENCE_DIR"
