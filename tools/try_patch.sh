#!/bin/bash
# usage: tools/try_patch.sh <patch.diff> <ID> [<ID>...]
# applies the patch to /repo, runs the given checks (evidence redirected), reverts the patch.
set -u
patch="$(realpath "$1")"; shift
export VERIF_EVIDENCE_DIR=$(mktemp -d /var/tmp/verif-ev.XXXXXX)
if ! git -C /repo diff --quiet; then echo "refusing: /repo has local changes"; exit 9; fi
git -C /repo apply "$patch" || { echo "patch does not apply"; exit 9; }
for id in "$@"; do
  out=$(python3 /verif/rules/check.py "$id" 2>&1); rc=$?
  echo "== $id exit=$rc"
  echo "$out" | grep -E "VIOLATION|KNOWN-FINDING|INCONCLUSIVE|BROKEN|violation " | cut -c1-300 | head -${LINES_MAX:-12}
done
git -C /repo checkout -- . ; git -C /repo clean -fdq -e target
rm -rf "$VERIF_EVIDENCE_DIR"
