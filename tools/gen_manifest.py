#!/usr/bin/env python3
"""Regenerates MANIFEST.json from the per-property table below (single source of truth)."""
import json, os
V = os.path.dirname(os.path.dirname(os.path.abspath(__file__)))
ids = [json.loads(l)["id"] for l in open(os.path.join(V, "properties.jsonl"))]

TB_MIR = "rustc's MIR construction (nightly 1.97) is the program; rules/tss.py abstract interpreter; "
CHECKS = {
 "C01": dict(cat="other", ref="DESIGN.md §3.1", technique="static hazard-site analysis over every crate-local body reachable from evaluation in the monomorphic instance graph (rustc_private driver; resolved MIR callees)",
   text="Every crate-local MIR body reachable from the three evaluation entry points - directly or through upstream generic code that calls back into hand-written Debug/Display/PartialEq/Clone/Drop impls - is scanned; every Assert terminator, integer arithmetic op, numeric cast and resolved callee is classified total/partial/silent. A pass means no reachable construct can panic or lose range, for all inputs; it is not a sample of inputs.",
   note=TB_MIR + "spec/callees.py classification of external callees (unclassified ones are assumed total and listed in the evidence); user functions and allocation failure excluded; 10 arithmetic-overflow sites are known findings, keyed by the operator cell in which they are met (node kind, operand types), not by the function they stand in."),
 "C02": dict(cat="other", ref="DESIGN.md §3.2", technique="tag-symbolic abstract interpretation of MIR; summary-vs-table comparison; tree-rewrite equivalence by abstract evaluation of concrete tree levels with the crate's own evaluator",
   text="All 1540 (operator, operand-tag tuple) cells and the dispatch wiring of all 47 node kinds are read off the MIR and compared with a reviewed table; the None and non-boolean rows of if / and / or (type errors) are cells of that table too. Decides that each cell is the designated operation on the designated operands in order with the designated error; does NOT decide numeric exactness of std/rust_decimal/chrono.",
   note=TB_MIR + "spec/optable.json (frozen from the fixed tree, reviewed); semantics of MIR primitives and named library functions as documented."),
 "C03": dict(cat="proof", ref="DESIGN.md §3.3", technique="exhaustive enumeration of the finite operand-tag domain by abstract interpretation of MIR; tree-rewrite equivalence for constructors / transformers",
   text="The tag domain is finite (10 value types): every operator x every operand-tag tuple without None is enumerated (1275 cells + if/and/or/equality rows); unsupported tuples must be exactly Err(InvalidType) on every path, supported arithmetic cells must not convert operands. Exhaustive, so a proof over types given the trusted base.",
   note=TB_MIR + "spec/typerules.py written from the property text; payload-independence of type errors is checked, not assumed."),
 "C04": dict(cat="proof", ref="DESIGN.md §3.4", technique="exhaustive enumeration of the finite operand-tag domain by abstract interpretation of MIR; tree-rewrite equivalence for constructors / transformers",
   text="All 276 operand tuples containing None (every operator, every tag of the other operand) plus the None paths of if/and/or/equality are enumerated; each must give the prescribed outcome on every path. Exhaustive over the finite tag domain.",
   note=TB_MIR + "spec/typerules.py none_rule written from the property text; derived PartialEq of Value."),
 "C05": dict(cat="other", ref="DESIGN.md §3.5", technique="path enumeration on the pre-transform coroutine CFG of the evaluator (ordered evaluation events); tree-rewrite equivalence (traces) for constructors / transformers",
   text="Every acyclic path of the evaluator's coroutine body for each of the 47 node kinds (loops unrolled twice) is enumerated with its ordered sub-evaluations and compared with the specified path set: laziness of if/and/or/equality, left-to-right single evaluation elsewhere, first error ends evaluation. Every entry into the evaluator (Expr::evaluate, the per-rule method) must hand the whole expression to it exactly once and return its result unchanged; a reached call invokes its user function (C11's invocation rules, imported).",
   note=TB_MIR + "await recogniser (poll == output of the awaited future); for-loops unrolled twice."),
 "C13": dict(cat="other", ref="DESIGN.md §3.13", technique="hazard-site analysis + tag-symbolic method summaries of the serde Serializer impls (found by trait; private collection wrappers read through) vs a per-kind mapping",
   text="No panic/lossy-cast site in any serializer body; each of the 30+28 Serializer methods and 18 collector methods builds the Value its serde kind prescribes (collector state tracked). Coincidence with serde_json is NOT decided.",
   note=TB_MIR + "serde's default methods; one allow-listed expect (map protocol violation by the caller)."),
 "C17": dict(cat="proof", ref="DESIGN.md §3.17", technique="exhaustive tag-table of every TryFrom<Value> impl + cast-losslessness rule over MIR",
   text="22 From impls and 21 TryFrom impls x 10 value tags (232 obligations) are summarised and compared with the conversion rules; every cast in these bodies must be lossless by type. Finite domain enumerated completely.",
   note=TB_MIR + "std's i128::from / T::try_from<i128> are exact; Result-collect stops at the first error."),
}
CHECKS.update({
 "C09": dict(cat="other", ref="DESIGN.md §3.9", technique="path enumeration of the coroutine bodies of evaluate_value / evaluate (MIR; loop-driving helpers inlined, only the per-expression evaluation opaque), structural matcher on every path; imported cache-transparency (C11) and rule-order (C15) obligations",
   text="All paths of RuleSet::evaluate_value (rule loop unrolled twice) and RuleSet::evaluate are enumerated with their ordered calls: one Outcome{value: stored per-rule result, rule: that rule} pushed per rule in iteration order of a plain forward iteration, no early exit, Ok(all outcomes); evaluate fails only through serialisation and otherwise delegates unchanged; besides shared references the per-rule evaluation receives only the function cache as mutable state.",
   note=TB_MIR + "the per-rule evaluation is opaque here (its isolation rests on C11/C12); Vec::push / slice iteration order (std)."),
 "C10": dict(cat="other", ref="DESIGN.md §3.10", technique="MIR lookup summaries (which key on which container, what on absence) compared with the lookup rules; the context, its parts and the lookup chain behind it are located structurally",
   text="Summaries of the identifier lookup (x10 input tags), symbol and function table lookups, the 20 cells of the index step and the evaluator's rows for Reference/Symbol/Function/Index: the key is the node's own unmodified name/index, the container the addressed one, absence gives None for steps and a named error for top-level names.",
   note=TB_MIR + "BTreeMap::get / <[T]>::get compare keys and positions exactly (std)."),
 "C11": dict(cat="other", ref="DESIGN.md §3.11", technique="path + dataflow rules on UserFunctions::call's coroutine MIR; interprocedural field-sensitive taint from every creation of the cache type to the consumer's cache parameter (one creation per evaluation entry, none under a loop); who-may-touch rule over the same taint",
   text="All 6 paths of UserFunctions::call are enumerated: lookup by name, bypass when not cacheable, same key for get/insert built from name and the whole argument only, hit makes no call, only successes stored, errors wrapped with the name; the cache object is created once per evaluation call and threaded downwards unchanged. Injectivity of the Debug rendering used as key is NOT decided.",
   note=TB_MIR + "BTreeMap semantics (std); key injectivity is an assumption."),
 "C12": dict(cat="other", ref="DESIGN.md §3.12", technique="effect / purity analysis: statics, field types, unsafe, signatures, deny-listed callees, ambient sources (clock, time zone, env, fs, net, randomness, threads) by reachability in the monomorphic instance graph incl. upstream MIR, suspension points",
   text="Structural premises of determinism and schedule independence: no mutable or interior-mutable static/field, no thread-local, no hand-written unsafe or Future impl, shared-reference entry points, no clock/random/hash-order/thread/env callee reachable from evaluation, every suspension point is an .await. Determinism is claimed given deterministic user functions.",
   note="rustc type facts (Freeze, field types) and resolved call graph; Rust's aliasing guarantees; the deny-list is a list (all reachable callees are enumerated in C01's evidence)."),
 "C15": dict(cat="other", ref="DESIGN.md §3.15", technique="must-pass-through and who-may-write rules over MIR summaries of the builder and the function table",
   text="Insertion into the rule list / function table is reachable only through the admission tests (duplicate, reserved word, identifier shape) with the inserted item's own name; refusals name the offender; wrappers delegate; the tables are written nowhere else; the identifier predicate requires first-char AND rest-chars tests; symbols use overwrite semantics.",
   note=TB_MIR + "UnicodeXID classes; Iterator::any/all, BTreeMap insert/append semantics (std)."),
 "C18": dict(cat="proof", ref="DESIGN.md §3.18", technique="compile-only witness crate: auto-trait assertions decided by rustc (+ compile-fail twins)",
   text="15 Send/Sync assertions over the public types, the three evaluation futures and a spawnable shape are type-checked against the current tree (cargo check, nothing executed); the compiler decides them for every instantiation. The run-time clause (same outcomes concurrently) rests on C12's structure and is not re-claimed.",
   note="rustc's trait solver; the witness source engines/typewit; negative twins (thorough) prove the helpers reject Rc / !Send futures."),
 "C19": dict(cat="other", ref="DESIGN.md §3.19", technique="recursion-cycle (SCC) analysis of the monomorphic instance call graph incl. derived impls, fmt fn pointers, vtables and drop glue",
   text="Every call cycle whose depth follows the nesting of an Expr/Value tree must contain a depth test dominating the recursive calls (dynamic dispatch is closed for trait objects that range over tree nodes, so a boxed `dyn Iterator` re-wrapped around itself per node is a cycle); the generated LR parser must be non-recursive. Decides the cause of stack exhaustion (unbounded input-driven recursion), not the depth at which a given stack dies. 12 unguarded cycles are known findings, and so is the fact that three of them (drop glue of Expr and of Value, the metadata folder) are reachable from parse itself.",
   note="rustc instance resolution and upstream MIR; std-internal bounded recursion (sort, fmt) is excluded by rule."),
})
CHECKS.update({
 "C06": dict(cat="other", ref="DESIGN.md §3.6", technique="hazard-site analysis of user-written parser code over the monomorphic call graph + slicing obligations (offsets from the calling helper's summary, specialised by constant arguments) discharged on token regexes (automata) + who-may-call region rule",
   text="Every crate-local body reachable (monomorphic call graph, through lalrpop_util's generic driver) from Expr::parse / Rule::parse is split into user-written code (134 grammar actions, literal helpers, unescape, rule builder, constructors) and the generated LR automaton. User code must contain no panic/lossy site; each string slice is admitted only if the regex of the one token whose action calls the helper proves the offsets in range and on character boundaries, and the helper has no other caller.",
   note=TB_MIR + "the automaton generated by lalrpop 0.22.2 and its runtime (lalrpop_util, regex-automata) are trusted and counted; spec/callees.py."),
 "C07": dict(cat="proof", ref="DESIGN.md §3.7", technique="grammar extraction from the generated parser + action terms from MIR; bisimulation with the precedence-table grammar; Earley probe suite",
   text="The expanded BNF printed in the generated parser (121 productions) with action terms read off the MIR of the 134 action functions is normalised and compared, up to renaming of nonterminals, with the grammar written from the property's table: equal grammars derive the same sentences with the same trees for all lengths (unambiguity: lalrpop's LR(1) check). A probe suite (every operator pair, unary/postfix mixes, if-nesting, atoms, aliases, lists/maps, truncations) is parsed with both grammars as cross-check and to produce witnesses.",
   note="lalrpop implements the LR(1) construction for the BNF it prints; rules/tss.py for action terms; spec/precedence.py; the lexer side is C08's. If the structural proof is unavailable (refactored grammar shape) the verdict is the bounded probe suite and the evidence says so."),
 "C08": dict(cat="other", ref="DESIGN.md §3.8", technique="lexer-table automata (inclusion, overlap/winner, boundary) + MIR summaries of the literal helpers (specialised by constant arguments) and of unescape (match / equality chain / constant-table search read alike)",
   text="Token->helper wiring and helper summaries (stripped prefix = the regex's fixed prefix, radix, conversion, variant), the escape table read off unescape's MIR, promised spellings inside token languages, token bodies free of spellings the conversions read exotically (inf/nan, digit separators), every overlapping pattern pair with its winner (keywords/literals before identifiers, longer word = identifier), skip patterns == whitespace / // comments, no whitespace or comment start inside tokens. Exactness of from_str is NOT decided.",
   note="lalrpop_util::lexer semantics (read); rules/lexre.py regex subset (fails closed); std / rust_decimal conversions trusted on their documented syntax."),
 "C14": dict(cat="other", ref="DESIGN.md §3.14", technique="tag table of the constant folder + end-to-end tag-symbolic summary of Rule::parse over known metadata lists (maps with known history decided by key comparison) + grammar shape of Rule",
   text="Decided clauses: constant folding is exhaustive over the 47 node kinds (only literals, lists and maps of constants); the assembly of the rule end to end - Rule::parse summarised with the generated parser replaced by the builder constructor run on 0/1/2 known metadata items (symbolic keys / values, folder opaque): first rejected item ends the parse with its own error, name = @name string else first comment line else MissingRuleName, metadata = the other items in order (last occurrence wins) plus the remaining comment lines as description unless a key is `description`, expression unchanged - every expected case must occur among the paths; Rule = MetaItem* Expr over the same Expr nonterminal. How a line is recognised as a comment and trimmed is NOT decided.",
   note=TB_MIR + "grammar extraction as in C07; std Result-collect / BTreeMap::insert semantics."),
 "C16": dict(cat="other", ref="DESIGN.md §3.16", technique="printer templates (format_args! byte code decoded from MIR) composed and re-parsed with the extracted grammar (Earley over sentential forms); leaf languages and token boundaries by automata on the lexer table; name slots of the grammar must be fed by IDENT; forward taint over the printer region: the rendering of a sub-term may not be the receiver of a content-rewriting str/String method",
   text="For all 47 node kinds alone and all 2444 (parent, hole, child) compositions the printed token string must parse back to exactly the printed tree; each literal kind's printed language must lie inside its token and strings must be escaped by the inverse of the unescape table; no last token of a child rendering may be extended by the character that follows it. 28 failing obligations are genuine round-trip defects (known findings).",
   note="C07 (grammar == table, unambiguous); Display languages of i128/f64/Decimal from a small trusted table; grandchildren are atoms (depth-2 compositions)."),
})
NA_REASON = "check not built yet (build in progress, see DESIGN.md §5)"

checks = []
for pid in ids:
    if pid not in CHECKS:
        continue
    c = CHECKS[pid]
    checks.append({
        "property_id": pid,
        "quick_cmd": "python3 rules/check.py %s --tier quick" % pid,
        "thorough_cmd": "python3 rules/check.py %s --tier thorough" % pid,
        "evidence_file": "/verif/evidence/%s.json" % pid,
        "replay_cmd_template": "python3 rules/check.py %s --tier quick  # the replay file {path} lists the offending constructs" % pid,
        "engine": "mirfacts+rules",
        "level_claimed": {"category": c["cat"], "text": c["text"], "design_ref": c["ref"]},
        "level_note": c["note"],
        "technique": c["technique"],
    })
m = {
 "version": 1,
 "setup_cmd": "cd /verif && bash tools/setup.sh",
 "hooks": {"guard": "reval_verif", "enable": "none needed: the driver reads rustc's own IR of the unmodified source (no hooks in /repo)",
           "baseline_off_cmd": "cd /repo && cargo test --workspace --no-fail-fast --offline", "source_commits": [], "add_only": True},
 "engines": [
   {"name": "mirfacts", "path": "engines/mirfacts", "serves_properties": sorted(CHECKS), "kind_free_text": "rustc_private driver (nightly) exporting pre-borrowck MIR, resolved callees, types, impls, statics and a monomorphic call graph as JSON; injected as RUSTC_WORKSPACE_WRAPPER under cargo +nightly check"},
   {"name": "gramfacts+lexre+cfg", "path": "rules", "serves_properties": ["C06", "C07", "C08", "C14", "C15", "C16"], "kind_free_text": "extraction of the expanded BNF / terminal map / lexer table from the parser lalrpop generated in the same cargo check (rules/gramfacts.py), regular-language automata over the table (rules/lexre.py), grammar algorithms: inlining, bisimulation, Earley over sentential forms (rules/cfg.py)"},
   {"name": "typewit", "path": "engines/typewit", "serves_properties": ["C18"], "kind_free_text": "compile-only witness crate (auto-trait assertions + negative/positive twins), type-checked with cargo check against the analysed tree"},
   {"name": "rules", "path": "rules", "serves_properties": sorted(CHECKS), "kind_free_text": "python3 (stdlib only) rule layer: tag-symbolic abstract interpreter over the exported MIR (tss.py), normaliser, hazard classifier, per-property rules and spec tables"},
 ],
 "checks": checks,
 "notes": "Static analysis only: nothing of mendelt/reval is executed by any check. See DESIGN.md. Genuine defects found are listed in known_findings.json (open = KNOWN-FINDING lines; fixed = fix: commits in /repo).",
 "not_applicable": [{"property_id": i, "reason": NA_REASON} for i in ids if i not in CHECKS],
}
json.dump(m, open(os.path.join(V, "MANIFEST.json"), "w"), indent=1)
print(len(checks), "checks;", len(m["not_applicable"]), "not yet claimed")
