#!/usr/bin/env python3
"""Regenerates MANIFEST.json from the per-property table below (single source of truth)."""
import json, os
V = os.path.dirname(os.path.dirname(os.path.abspath(__file__)))
ids = [json.loads(l)["id"] for l in open(os.path.join(V, "properties.jsonl"))]

TB_MIR = "rustc's MIR construction (nightly 1.97) is the program; rules/tss.py abstract interpreter; "
CHECKS = {
 "C01": dict(cat="other", ref="DESIGN.md §3.1", technique="static hazard-site analysis over the call graph of resolved MIR callees (rustc_private driver)",
   text="Every crate-local MIR body reachable from the three evaluation entry points is scanned; every Assert terminator, integer arithmetic op, numeric cast and resolved callee is classified total/partial/silent. A pass means no reachable construct can panic or lose range, for all inputs; it is not a sample of inputs.",
   note=TB_MIR + "spec/callees.py classification of external callees (unclassified ones are assumed total and listed in the evidence); user functions and allocation failure excluded; 10 arithmetic-overflow sites are known findings."),
 "C02": dict(cat="other", ref="DESIGN.md §3.2", technique="tag-symbolic abstract interpretation of MIR; summary-vs-table comparison",
   text="All 1540 (operator, operand-tag tuple) cells and the dispatch wiring of all 47 node kinds are read off the MIR and compared with a reviewed table. Decides that each cell is the designated operation on the designated operands in order with the designated error; does NOT decide numeric exactness of std/rust_decimal/chrono.",
   note=TB_MIR + "spec/optable.json (frozen from the fixed tree, reviewed); semantics of MIR primitives and named library functions as documented."),
 "C03": dict(cat="proof", ref="DESIGN.md §3.3", technique="exhaustive enumeration of the finite operand-tag domain by abstract interpretation of MIR",
   text="The tag domain is finite (10 value types): every operator x every operand-tag tuple without None is enumerated (1275 cells + if/and/or/equality rows); unsupported tuples must be exactly Err(InvalidType) on every path, supported arithmetic cells must not convert operands. Exhaustive, so a proof over types given the trusted base.",
   note=TB_MIR + "spec/typerules.py written from the property text; payload-independence of type errors is checked, not assumed."),
 "C04": dict(cat="proof", ref="DESIGN.md §3.4", technique="exhaustive enumeration of the finite operand-tag domain by abstract interpretation of MIR",
   text="All 276 operand tuples containing None (every operator, every tag of the other operand) plus the None paths of if/and/or/equality are enumerated; each must give the prescribed outcome on every path. Exhaustive over the finite tag domain.",
   note=TB_MIR + "spec/typerules.py none_rule written from the property text; derived PartialEq of Value."),
 "C05": dict(cat="other", ref="DESIGN.md §3.5", technique="path enumeration on the pre-transform coroutine CFG of the evaluator (ordered evaluation events)",
   text="Every acyclic path of the evaluator's coroutine body for each of the 47 node kinds (loops unrolled twice) is enumerated with its ordered sub-evaluations and compared with the specified path set: laziness of if/and/or/equality, left-to-right single evaluation elsewhere, first error ends evaluation.",
   note=TB_MIR + "await recogniser (poll == output of the awaited future); for-loops unrolled twice."),
 "C13": dict(cat="other", ref="DESIGN.md §3.13", technique="hazard-site analysis + tag-symbolic method summaries of the serde Serializer impls vs a per-kind mapping",
   text="No panic/lossy-cast site in any serializer body; each of the 30+28 Serializer methods and 18 collector methods builds the Value its serde kind prescribes (collector state tracked). Coincidence with serde_json is NOT decided.",
   note=TB_MIR + "serde's default methods; one allow-listed expect (map protocol violation by the caller)."),
 "C17": dict(cat="proof", ref="DESIGN.md §3.17", technique="exhaustive tag-table of every TryFrom<Value> impl + cast-losslessness rule over MIR",
   text="22 From impls and 21 TryFrom impls x 10 value tags (232 obligations) are summarised and compared with the conversion rules; every cast in these bodies must be lossless by type. Finite domain enumerated completely.",
   note=TB_MIR + "std's i128::from / T::try_from<i128> are exact; Result-collect stops at the first error."),
}
NA_REASON = "check not built yet (build in progress, see DESIGN.md §5)"

checks = []
for pid in ids:
    if pid not in CHECKS:
        continue
    c = CHECKS[pid]
    checks.append({
        "property_id": pid,
        "quick_cmd": "python3 rules/check.py %s --tier quick" % pid,
        "thorough_cmd": "python3 rules/check.py %s --tier thorough" % pid,
        "evidence_file": "/verif/evidence/%s.json" % pid,
        "replay_cmd_template": "python3 rules/check.py %s --tier quick  # the replay file {path} lists the offending constructs" % pid,
        "engine": "mirfacts+rules",
        "level_claimed": {"category": c["cat"], "text": c["text"], "design_ref": c["ref"]},
        "level_note": c["note"],
        "technique": c["technique"],
    })
m = {
 "version": 1,
 "setup_cmd": "cd /verif && bash tools/setup.sh",
 "hooks": {"guard": "reval_verif", "enable": "none needed: the driver reads rustc's own IR of the unmodified source (no hooks in /repo)",
           "baseline_off_cmd": "cd /repo && cargo test --workspace --no-fail-fast --offline", "source_commits": [], "add_only": True},
 "engines": [
   {"name": "mirfacts", "path": "engines/mirfacts", "serves_properties": sorted(CHECKS), "kind_free_text": "rustc_private driver (nightly) exporting pre-borrowck MIR, resolved callees, types, impls, statics and a monomorphic call graph as JSON; injected as RUSTC_WORKSPACE_WRAPPER under cargo +nightly check"},
   {"name": "rules", "path": "rules", "serves_properties": sorted(CHECKS), "kind_free_text": "python3 (stdlib only) rule layer: tag-symbolic abstract interpreter over the exported MIR (tss.py), normaliser, hazard classifier, per-property rules and spec tables"},
 ],
 "checks": checks,
 "notes": "Static analysis only: nothing of mendelt/reval is executed by any check. See DESIGN.md. Genuine defects found are listed in known_findings.json (open = KNOWN-FINDING lines; fixed = fix: commits in /repo).",
 "not_applicable": [{"property_id": i, "reason": NA_REASON} for i in ids if i not in CHECKS],
}
json.dump(m, open(os.path.join(V, "MANIFEST.json"), "w"), indent=1)
print(len(checks), "checks;", len(m["not_applicable"]), "not yet claimed")
