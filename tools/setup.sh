#!/bin/bash
# Build the framework from files on disk only (offline) and warm the dependency cache of the driver pass.
set -e
cd "$(dirname "$0")/.."
export CARGO_NET_OFFLINE=true
(cd engines/mirfacts && cargo build --offline 2>&1 | tail -3)
python3 rules/runner.py
