#!/usr/bin/env python3
"""Freeze the operator table read off the current tree into spec/optable.json.

NOT run by any check.  It was run once on the tree at /repo commit 635a4d9 (after the fix: commits);
the resulting file was then reviewed cell by cell against the statement of C02 and the language
documentation (docs/src/reval/index.md) — see DESIGN.md §3.2.  Later trees are compared with it."""
import json, os, re, sys
sys.path.insert(0, os.path.join(os.path.dirname(os.path.abspath(__file__)), "..", "rules"))
from framework import get_facts
import optable

LABEL = re.compile(r"'[^']*'")
MAY_FAIL_OPS = ("Add(", "Sub(", "Mul(", "Neg(", "Decimal::add(", "Decimal::sub(", "Decimal::mul(", "DateTime::add<TimeDelta>(",
                "DateTime::sub<TimeDelta>(", "TimeDelta::sub(", "TimeDelta::add(")

def main():
    f = get_facts()
    t = optable.compute(f)
    spec = {}
    SPEC = os.path.join(os.path.dirname(os.path.abspath(__file__)), "..", "spec", "optable.json")
    kinds = sorted(json.load(open(SPEC))) if os.path.exists(SPEC) else sorted(t["op_of_kind"])
    for kind in kinds:
        cells = t["cells_by_kind"][kind]      # read through the evaluator's own arm (DESIGN.md §8)
        table = {}
        for combo, outs in sorted(cells.items()):
            o = sorted([[list(map(list, x["conds"])), LABEL.sub("'*'", x["ret"])] for x in outs])
            if o == [[[], "Err(InvalidType)"]]:
                continue
            entry = {"outcomes": o}
            table[",".join(combo)] = entry
        spec[kind] = {"default": "Err(InvalidType)", "cells": table}
    json.dump(spec, open(os.path.join(os.path.dirname(os.path.abspath(__file__)), "..", "spec", "optable.json"), "w"), indent=1, sort_keys=True)
    print(sum(len(v["cells"]) for v in spec.values()), "non-default cells in", len(spec), "node kinds")

main()
