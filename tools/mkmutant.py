#!/usr/bin/env python3
"""mkmutant.py <out.diff> <file-in-repo> <<< 'OLD\n=====\nNEW'   (OLD must occur exactly once)"""
import subprocess, sys
out, rel = sys.argv[1], sys.argv[2]
old, new = sys.stdin.read().split("\n=====\n")
new = new.rstrip("\n") if not old.endswith("\n") else new
p = "/repo/" + rel
s = open(p).read()
assert s.count(old) == 1, "OLD occurs %d times" % s.count(old)
assert subprocess.run(["git", "-C", "/repo", "diff", "--quiet"]).returncode == 0, "/repo dirty"
open(p, "w").write(s.replace(old, new))
d = subprocess.check_output(["git", "-C", "/repo", "diff"], text=True)
subprocess.check_call(["git", "-C", "/repo", "checkout", "--", "."])
if out.endswith(".diff") and __import__("os").path.exists(out) and "--append" in sys.argv:
    d = open(out).read() + d
open(out, "w").write(d)
print("wrote", out, len(d.splitlines()), "lines")
