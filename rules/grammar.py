"""The grammar the generated parser implements: productions (gramfacts) + action terms (TSS of __actionN)."""
import re

import evalsum
import gramfacts
from norm import norm, norm_cond, show

_cache = {}


def helper_opaque(p):
    return p.startswith("parse::helpers::") or p.startswith("parse::unescape::") or p.startswith("parse::rule::")


def constant_value(v):
    """a value fixed at compile time: literals, trees of them, function items and capture-free closures (a descriptor
    `Literal { lead: 1, trail: 0, decode: |s| .. }`)"""
    k = v[0]
    if k == "const":
        return True
    if k == "adt":
        return all(constant_value(x) for x in v[3])
    if k == "tup":
        return all(constant_value(x) for x in v[1])
    if k == "closure":
        return not v[2]
    if k == "fn":
        return True
    if k in ("rref", "box"):
        return constant_value(v[1])
    return False


def action_term(f, n, nsyms, spec=None):
    """normalised outcomes of __action<n> with its symbol values named $0..$k:  list of (conds, term).
    A helper called with the token text and otherwise only constants (`Literal::Int.parse(s)`, `radix(s, 16)`) is one
    helper per constant tuple: it is shown as `helpers::<name>_<constants>!($k)` and recorded in `spec`
    (name -> (path, argument template with None at the text position))."""
    from tss import Interp
    from norm import short_callee
    d = "parse::reval::__action%d" % n
    if d not in f.bodies:
        return None
    b = f.bodies[d]
    names = ["input"] + ["$%d" % i for i in range(b["arg_count"] - 1)]
    outs, it = evalsum.summarize_fn(f, d, arg_names=names, opaque=helper_opaque)
    ren = {}
    for c, r, s, rv in outs:
        for e in s.events:
            if e[0] != "call":
                continue
            # a provided method of a crate-private trait called on a concrete type (`IntToken::parse(s)` with
            # `trait Literal { const LEAD: usize; fn parse(..) { .. Self::LEAD .. } }`) is one helper per implementing type
            mt = re.fullmatch(r"<(.+) as ([\w:]+)>::(\w+)", e[1])
            if mt and (mt.group(2) + "::" + mt.group(3)) in f.bodies and helper_opaque(mt.group(2) + "::" + mt.group(3)):
                shown = [show(norm(a)) for a in e[2]]
                text = [i for i, a in enumerate(shown) if re.fullmatch(r"\$\d+\.1", a)]
                if len(text) == 1 and len(shown) == 1:
                    sc = short_callee(e[1])
                    mangled = re.sub(r"\W+", "_", sc)
                    for bang in ("", "!", "!err"):
                        ren["%s%s(%s)" % (sc, bang, ", ".join(shown))] = "helpers::%s%s(%s)" % (mangled, bang, shown[0])
                    if spec is not None:
                        spec[mangled] = (mt.group(2) + "::" + mt.group(3), (None,), {"Self": mt.group(1)})
                continue
            if e[1] not in f.bodies or not helper_opaque(e[1]):
                continue
            shown = [show(norm(a)) for a in e[2]]
            text = [i for i, a in enumerate(shown) if re.fullmatch(r"\$\d+\.1", a)]
            consts = [i for i, a in enumerate(e[2]) if constant_value(a)]
            if len(text) != 1 or len(consts) + 1 != len(shown) or not consts:
                continue
            sc = short_callee(e[1])
            mangled = re.sub(r"\W+", "_", sc[len("helpers::"):] if sc.startswith("helpers::") else sc) + "".join("_" + re.sub(r"\W+", "_", shown[i]) for i in consts)
            for bang in ("", "!", "!err"):
                ren["%s%s(%s)" % (sc, bang, ", ".join(shown))] = "helpers::%s%s(%s)" % (mangled, bang, shown[text[0]])
            if spec is not None:
                spec[mangled] = (e[1], tuple(None if i == text[0] else e[2][i] for i in range(len(shown))))

    def fix(x):
        for o, nw in ren.items():
            x = x.replace(o, nw)
        return re.sub(r"\$(\d+)\.1", r"$\1", x)
    res = []
    for c, r, s, rv in outs:
        res.append((tuple((fix(a), b_) for a, b_ in c), fix(r)))
    return sorted(res)


def helper_summary(f, g, name, opaque=None):
    """summary of the literal helper `name` as the actions call it, with the token text named `value`"""
    from tss import Interp, State
    sp = g.get("spec_helpers", {}).get(name)
    if not sp:
        path = "parse::helpers::" + name
        if path not in f.bodies:
            return None, None
        outs, it = evalsum.summarize_fn(f, path, arg_names=["value"], opaque=opaque)
        return path, outs
    path, template = sp[0], sp[1]
    it = Interp(f, opaque=opaque)
    if len(sp) > 2 and sp[2]:
        it.tsub = dict(sp[2])
    st = State()
    def thaw(v):
        # a resolved reference (read-only snapshot) becomes a live reference to a fresh cell again
        if v[0] == "rref":
            return ("ref", st.alloc(thaw(v[1])))
        if v[0] == "adt":
            return ("adt", v[1], v[2], tuple(thaw(x) for x in v[3]))
        if v[0] == "tup":
            return ("tup", tuple(thaw(x) for x in v[1]))
        return v
    args = [("sym", "value") if a is None else thaw(a) for a in template]
    outs = []
    for s_, rv in it.run(path, args, st):
        outs.append((tuple(sorted(set(norm_cond(c) for c in s_.conds))), show(norm(it.resolve(s_, rv))), s_, rv))
    return path, outs


def load(f):
    key = getattr(f, "path", id(f))
    if key in _cache:
        return _cache[key]
    try:
        g = gramfacts.extract(f.parser_src)
    except gramfacts.GrammarError as e:
        from framework import Inconclusive
        raise Inconclusive("the generated parser does not have the table-driven shape the extraction reads (%s)" % e)
    # function values that become known when productions are composed (an operator nonterminal returning the node
    # constructor as a function pointer) are applied by the grammar algorithms through this
    import cfg as _cfg
    from norm import short_callee as _sc
    _fn_terms = {}

    def fn_term(name, nargs):
        key_ = (name, nargs)
        if key_ not in _fn_terms:
            out_ = None
            c_ = [d for d, b in f.bodies.items() if not b.get("parent") and b["arg_count"] == nargs and (_sc(d) == name or d == name)]
            if len(c_) > 1:
                # a constructor `Expr::eq` and the derived `PartialEq::eq` share a short name: the inherent one is meant
                c_ = [d for d in c_ if not (f.bodies[d].get("impl") or {}).get("trait")] or c_
            if len(c_) == 1:
                try:
                    outs_, _ = evalsum.summarize_fn(f, c_[0], arg_names=["$%d" % i for i in range(nargs)], opaque=helper_opaque)
                    if len(outs_) == 1 and not outs_[0][0]:
                        out_ = outs_[0][1]
                except Exception:
                    out_ = None
            _fn_terms[key_] = out_
        return _fn_terms[key_]
    _cfg.FN_TERM = fn_term
    prods = []
    g["spec_helpers"] = {}
    for (lhs, rhs), a in sorted(g["productions"].items(), key=lambda x: x[1]):
        prods.append({"lhs": lhs, "rhs": list(rhs), "action": a, "term": action_term(f, a, len(rhs), g["spec_helpers"])})
    g["prods"] = prods
    _cache[key] = g
    return g


def reachable(g, start):
    by_lhs = {}
    for p in g["prods"]:
        by_lhs.setdefault(p["lhs"], []).append(p)
    seen = []
    todo = [start]
    while todo:
        x = todo.pop()
        if x in seen or x not in by_lhs:
            continue
        seen.append(x)
        for p in by_lhs[x]:
            todo.extend(p["rhs"])
    return seen, by_lhs
