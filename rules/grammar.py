"""The grammar the generated parser implements: productions (gramfacts) + action terms (TSS of __actionN)."""
import re

import evalsum
import gramfacts
from norm import norm, norm_cond, show

_cache = {}


def helper_opaque(p):
    return p.startswith("parse::helpers::") or p.startswith("parse::unescape::") or p.startswith("parse::rule::")


def action_term(f, n, nsyms):
    """normalised outcomes of __action<n> with its symbol values named $0..$k:  list of (conds, term)"""
    d = "parse::reval::__action%d" % n
    if d not in f.bodies:
        return None
    b = f.bodies[d]
    names = ["input"] + ["$%d" % i for i in range(b["arg_count"] - 1)]
    outs, it = evalsum.summarize_fn(f, d, arg_names=names, opaque=helper_opaque)
    res = []
    for c, r, s, rv in outs:
        r = re.sub(r"\$(\d+)\.1", r"$\1", r)
        c = tuple((re.sub(r"\$(\d+)\.1", r"$\1", a), b_) for a, b_ in c)
        res.append((c, r))
    return sorted(res)


def load(f):
    key = getattr(f, "path", id(f))
    if key in _cache:
        return _cache[key]
    try:
        g = gramfacts.extract(f.parser_src)
    except gramfacts.GrammarError as e:
        from framework import Inconclusive
        raise Inconclusive("the generated parser does not have the table-driven shape the extraction reads (%s)" % e)
    prods = []
    for (lhs, rhs), a in sorted(g["productions"].items(), key=lambda x: x[1]):
        prods.append({"lhs": lhs, "rhs": list(rhs), "action": a, "term": action_term(f, a, len(rhs))})
    g["prods"] = prods
    _cache[key] = g
    return g


def reachable(g, start):
    by_lhs = {}
    for p in g["prods"]:
        by_lhs.setdefault(p["lhs"], []).append(p)
    seen = []
    todo = [start]
    while todo:
        x = todo.pop()
        if x in seen or x not in by_lhs:
            continue
        seen.append(x)
        for p in by_lhs[x]:
            todo.extend(p["rhs"])
    return seen, by_lhs
