"""C09 — a ruleset yields one outcome per rule, in order, each isolated from the others.

Path rules on RuleSet::evaluate_value / RuleSet::evaluate (pre-transform coroutine MIR)."""
import re
import evalsum
from framework import Inconclusive
from norm import norm, norm_cond, show, short_callee

LEVEL = "other"
UNROLL = 2


def find(f, name, self_s):
    c = evalsum.find_by_name(f, name, self_s)
    if len(c) != 1:
        raise Inconclusive("anchor %s::%s not found" % (self_s, name))
    return c[0]


def events_of(s):
    out = []
    for e in s.events:
        if e[0] == "call":
            out.append(("call", short_callee(e[1])) + tuple(show(norm(a)) for a in e[2]))
        elif e[0] == "iter_next":
            out.append(("next", show(norm(e[1])), e[2]))
        elif e[0] == "iter_end":
            out.append(("end", show(norm(e[1])), e[2]))
    return out


def run(res, f, tier):
    global UNROLL
    UNROLL = 3 if tier == "thorough" else 2
    ev_value = find(f, "evaluate_value", "ruleset::RuleSet")
    ev_fn = find(f, "evaluate", "ruleset::RuleSet")
    import anchors
    A = anchors.resolve(f)
    # the per-rule evaluation is whatever crate-local function(s) evaluate_value calls that reach the recursive
    # evaluator (Expr::eval_rule today); they stay opaque here
    evaluator_fn = A["evaluator"][0]
    reaches_evaluator = set(d for d, b in f.bodies.items() if not b.get("parent") and b["kind"] in ("Fn", "AssocFn")
                            and d not in (ev_value, ev_fn) and evaluator_fn in evalsum.reachable_local(f, [d])
                            and (b.get("impl") or {}).get("self_s") != "ruleset::RuleSet"      # RuleSet's own helpers are part of the loop: inlined
                            # it works on one expression; whatever drives the loop over the rules (a helper object, a
                            # per-rule wrapper taking the Rule) is read through
                            and any(evalsum.EXPR in f.ty_s(b["locals"][i]["ty"]) for i in range(1, b["arg_count"] + 1)))
    PER_RULE = set(short_callee(d) for d in reaches_evaluator)
    outcome = f.adts.get("ruleset::Outcome")
    rule_adt = f.adts.get("ruleset::rule::Rule")
    if not outcome or not rule_adt:
        raise Inconclusive("Outcome / Rule types not found")
    obligations = discharged = 0

    def ob(ok, key, what, detail=None):
        nonlocal obligations, discharged
        obligations += 1
        if ok:
            discharged += 1
        else:
            res.violation(key, what, detail)

    ofields = [fl["name"] for fl in outcome["variants"][0]["fields"]]
    ob(sorted(ofields) == ["rule", "value"] and outcome["variants"][0]["fields"][ofields.index("rule")]["ty_s"].endswith("Rule"),
       "C09|outcome-type", "Outcome must carry exactly the result value and a reference to its rule: %s" % ofields)
    # which field of Rule does Rule::expr() return?
    rexpr = [d for d, b in f.bodies.items() if b["name"] == "expr" and (b.get("impl") or {}).get("self_s") == "ruleset::rule::Rule"]
    expr_idx = None
    if len(rexpr) == 1:
        outs, _ = evalsum.summarize_fn(f, rexpr[0], arg_names=["self"])
        if len(outs) == 1 and outs[0][1] == "self.expr":
            expr_idx = [fl["name"] for fl in rule_adt["variants"][0]["fields"]].index("expr")
    ob(expr_idx is not None, "C09|rule-expr", "Rule::expr() must return the rule's own expression field")
    # ---- what the rules of one evaluation share: apart from the ruleset and the input (shared references) only the
    # function cache (transparent: C11).  Any other mutable state handed to every per-rule evaluation (a counter, a
    # scratch buffer, a budget) lets one rule's run change another's outcome.
    try:
        ufb = f.bodies[A["uf_call"]]
        cache_ty = [f.ty_s(ufb["locals"][i]["ty"])[5:] for i in range(2, ufb["arg_count"] + 1) if f.ty_s(ufb["locals"][i]["ty"]).startswith("&mut ")]
    except Inconclusive:
        cache_ty = []
    strip_lt = lambda t_: re.sub(r"'\w+ ", "", t_)
    cache_ty = [strip_lt(t_) for t_ in cache_ty]

    def mutable_leaves(ty_id, depth=0):
        t_ = f.ty(ty_id)
        ts_ = strip_lt(t_["s"])
        if ts_ in cache_ty:
            return []
        if t_["k"] == "ref":
            return mutable_leaves(t_["inner"], depth + 1) if ts_.startswith("&mut ") else []
        if t_["k"] == "adt" and depth < 6:
            a_ = f.adts.get(t_["adt"])
            if a_ and a_.get("local") and a_["kind"] == "struct":
                out_ = []
                for fl in a_["variants"][0]["fields"]:
                    if fl.get("ty") is not None:
                        out_ += mutable_leaves(fl["ty"], depth + 1)
                return out_
            if ts_.startswith("std::marker::PhantomData"):
                return []
        return [ts_]

    # (only the functions evaluate_value itself calls per rule: a context built inside them lives for one rule)
    paths, it = evalsum.run_async_fn(f, ev_value, ["self", "facts"], opaque=lambda p: p in reaches_evaluator, loop_bound=UNROLL)
    called_per_rule = set(short_callee(e[1]) for s_, _ in paths for e in s_.events if e[0] == "call" and short_callee(e[1]) in PER_RULE)
    if cache_ty:
        for d in sorted(d_ for d_ in reaches_evaluator if short_callee(d_) in called_per_rule):
            b_ = f.bodies[d]
            for i in range(1, b_["arg_count"] + 1):
                ts_ = strip_lt(f.ty_s(b_["locals"][i]["ty"]))
                if not ts_.startswith("&mut "):
                    continue
                extra = mutable_leaves(b_["locals"][i]["ty"])
                ob(not extra, "C09|shared-state|%s" % short_callee(d),
                   "%s hands mutable state other than the function cache (%s inside %s) to the evaluation of every rule: what one rule leaves there changes the next rule's outcome"
                   % (short_callee(d), sorted(set(extra)), ts_), {"fn": d, "param": b_["locals"][i].get("name")})
    # ---- evaluate_value
    # the rule list under its role name, whatever private struct carries it (`self.rules.rules` in a RuleList newtype)
    import roles
    canon = roles.Canon(f, "ruleset::RuleSet", "self")
    got = []
    for s, rv in paths:
        got.append((canon(dict(norm_cond(c) for c in s.conds)), [tuple(canon(list(e))) for e in events_of(s)], canon(show(norm(it.resolve(s, rv)))), set(s.flags)))
    # every path: a plain forward iteration over self.rules; per item exactly one per-rule evaluation of that rule's own
    # expression whose awaited result is stored (not branched on, not propagated) together with that rule; nothing
    # else decides the path; the result is Ok(all outcomes, in order)
    SOURCES = ("into_iter([Rule]::iter(self.rules))", "into_iter(self.rules)", "[Rule]::iter(self.rules)")
    bad = []
    match = None
    seen_k = set()
    for conds, events, ret, flags in got:
        srcs = sorted(set(e[1] for e in events if e[0] in ("next", "end")))
        if len(srcs) != 1 or srcs[0] not in SOURCES:
            bad.append(("the rules are not visited by one plain forward iteration over self.rules", srcs))
            continue
        src = match = srcs[0]
        k = sum(1 for e in events if e[0] == "next")
        other = [c for c in conds if not c.startswith("next(%s, #" % src)]
        if other:
            bad.append(("the path depends on something other than the list of rules (a failure or a rule's result decides what happens to the other rules)", other[:3]))
            continue
        if "loop_bound_hit" in flags and conds.get("next(%s, #%d)" % (src, k)) != "fails":
            continue
        if not (all(conds.get("next(%s, #%d)" % (src, i)) == "ok" for i in range(k)) and conds.get("next(%s, #%d)" % (src, k)) == "fails"):
            bad.append(("iteration conditions", conds))
            continue
        results = None
        ok_path = True
        pos = 0
        evs = [e for e in events if e[0] in ("next", "end") or (e[0] == "call" and (e[1] in PER_RULE or e[1] == "Vec::push"))]
        for i in range(k):
            el = "elem%d(%s)" % (i, src)
            expr_arg = "%s.%d" % (el, expr_idx if expr_idx is not None else 0)
            if pos + 2 >= len(evs) or evs[pos] != ("next", src, i):
                ok_path = False
                break
            call = evs[pos + 1]
            if not (call[0] == "call" and call[1] in PER_RULE and expr_arg in call[2:]):
                ok_path = False
                break
            push = evs[pos + 2]
            vals = {"value": "await(%s(%s))" % (call[1], ", ".join(call[2:])), "rule": el}
            oc = "Outcome(%s)" % ", ".join(vals[n] for n in ofields)
            if not (push[0] == "call" and push[1] == "Vec::push" and len(push) == 4 and push[3] == oc and (results is None or push[2] == results)):
                ok_path = False
                break
            results = "push(%s, %s)" % (push[2], oc)
            pos += 3
        if ok_path and k == 0:
            results = next((r_ for r_ in ("Vec::new()",) if ret == "Ok(%s)" % r_), None) or (ret[3:-1] if re.fullmatch(r"Ok\(Vec::with_capacity\(.*\)\)", ret) else None)
            ok_path = results is not None
        if ok_path and not (pos < len(evs) and evs[pos] == ("end", src, k) and pos + 1 == len(evs)):
            ok_path = False
        if ok_path and ret != "Ok(%s)" % results:
            ok_path = False
        if not ok_path:
            bad.append(("the path does not push exactly one Outcome{value: that rule's awaited result, rule: that rule} per rule and return Ok(all of them)",
                        {"events": [" ".join(map(str, e)) for e in evs][:8], "result": ret[:200]}))
        else:
            seen_k.add(k)
    ob(not bad and seen_k >= set(range(UNROLL + 1)), "C09|evaluate_value",
       "evaluate_value must push exactly one Outcome{value: result of evaluating that rule's expression (stored, not propagated), rule: that rule} per rule, "
       "in the order of the rules, and return Ok(all outcomes): %s" % bad[:2], {"problems": bad[:4]})
    # ---- evaluate: serialise, fail only there, delegate
    paths, it = evalsum.run_async_fn(f, ev_fn, ["self", "facts"], opaque=lambda p: p == ev_value)
    got = sorted((tuple(sorted(norm_cond(c) for c in s.conds)), tuple(events_of(s)), show(norm(it.resolve(s, rv)))) for s, rv in paths)
    S = "impl Serialize::serialize(facts, ValueSerializer)"
    want = sorted([(((S, "fails"),), (("call", "impl Serialize::serialize", "facts", "ValueSerializer"),), "Err(impl Serialize::serialize!err(facts, ValueSerializer))"),
                   (((S, "ok"),), (("call", "impl Serialize::serialize", "facts", "ValueSerializer"),
                                   ("call", "RuleSet::evaluate_value", "self", "impl Serialize::serialize!(facts, ValueSerializer)")),
                    "await(RuleSet::evaluate_value(self, impl Serialize::serialize!(facts, ValueSerializer)))")])
    ob(got == want, "C09|evaluate", "evaluate must serialise the input with the Value serializer, fail only if that fails, and otherwise return "
       "evaluate_value(self, serialized) unchanged: %s" % got)
    # isolation also needs the one thing the rules share — the per-evaluation function cache — to be transparent:
    # a cached entry must be the successful result of the same (function, argument); otherwise one rule's call
    # (or failure) changes another rule's outcome.  The transparency rules are C11's; their verdict is imported.
    import c11
    from framework import Result
    r11 = Result("C11", "other")
    try:
        c11.run(r11, f, tier)
    except Inconclusive as e:
        # C11 could not decide on this tree: C09's own findings still stand; without any, C09 is inconclusive too
        res.floor_failures.append("imported cache-transparency verdict unavailable: %s" % e)
    poisoning = [v for v in r11.violations if v["key"] in ("C11|same-key", "C11|key-content", "C11|hit", "C11|miss-ok", "C11|failures-not-cached", "C11|right-function")]
    ob(not poisoning, "C09|shared-cache-transparent",
       "the function cache shared by the rules of one evaluation is not transparent, so a rule's outcome can depend on the other rules: %s" % [v["what"][:160] for v in poisoning],
       {"c11_findings": [v["key"] for v in poisoning]})
    # "in the order the rules were added": the ruleset evaluates self.rules front to back (above), so the order of
    # outcomes is the order in which the builder stored the rules.  Those storage rules are C15's; imported.
    import c15
    r15 = Result("C15", "other")
    try:
        c15.run(r15, f, tier)
    except Inconclusive as e:
        res.floor_failures.append("imported rule-order verdict unavailable: %s" % e)
    order = [v for v in r15.violations if v["key"] in ("C15|with_rule", "C15|with_rules", "C15|build")]
    ob(not order, "C09|rules-stored-in-order",
       "the builder does not keep the rules in the order they were added, so the outcomes are not in that order either: %s" % [v["what"][:160] for v in order],
       {"c15_findings": [v["key"] for v in order]})
    res.coverage = {
        "explanation": "All paths (rule loop unrolled %d times) of the coroutine bodies of RuleSet::evaluate_value and RuleSet::evaluate were enumerated with their "
                       "ordered calls; they must equal the specified path set: one push of Outcome{value: awaited per-rule result (no `?`), rule: the same rule} "
                       "per iteration of a plain forward iteration over self.rules, one cache and one result list created before the loop, return Ok(results)." % UNROLL,
        "obligations": obligations, "discharged": discharged, "paths": len(paths) + UNROLL + 1,
        "iterator_spelling": match,
        "rule": "path set == specification",
        "samples": [{"when": sorted("%s %s" % c for c in cs), "events": [" ".join(str(x) for x in e) for e in ev][:8], "result": r[:300]} for cs, ev, r in got][:2],
        "exhaustive": True,
    }
    res.assumptions = ["Vec::push appends, slice iteration is in index order (std)", "the per-rule evaluation itself (eval_rule) is opaque here; its isolation from other rules rests on C11/C12"]
