"""C09 — a ruleset yields one outcome per rule, in order, each isolated from the others.

Path rules on RuleSet::evaluate_value / RuleSet::evaluate (pre-transform coroutine MIR)."""
import evalsum
from framework import Inconclusive
from norm import norm, norm_cond, show, short_callee

LEVEL = "other"
UNROLL = 2


def find(f, name, self_s):
    c = evalsum.find_by_name(f, name, self_s)
    if len(c) != 1:
        raise Inconclusive("anchor %s::%s not found" % (self_s, name))
    return c[0]


def events_of(s):
    out = []
    for e in s.events:
        if e[0] == "call":
            out.append(("call", short_callee(e[1])) + tuple(show(norm(a)) for a in e[2]))
        elif e[0] == "iter_next":
            out.append(("next", show(norm(e[1])), e[2]))
        elif e[0] == "iter_end":
            out.append(("end", show(norm(e[1])), e[2]))
    return out


def run(res, f, tier):
    global UNROLL
    UNROLL = 3 if tier == "thorough" else 2
    ev_value = find(f, "evaluate_value", "ruleset::RuleSet")
    ev_fn = find(f, "evaluate", "ruleset::RuleSet")
    import anchors
    A = anchors.resolve(f)
    eval_rule = [A["eval_rule"]]
    ER = A["short"]["eval_rule"]
    outcome = f.adts.get("ruleset::Outcome")
    rule_adt = f.adts.get("ruleset::rule::Rule")
    if not outcome or not rule_adt:
        raise Inconclusive("Outcome / Rule types not found")
    obligations = discharged = 0

    def ob(ok, key, what, detail=None):
        nonlocal obligations, discharged
        obligations += 1
        if ok:
            discharged += 1
        else:
            res.violation(key, what, detail)

    ofields = [fl["name"] for fl in outcome["variants"][0]["fields"]]
    ob(sorted(ofields) == ["rule", "value"] and outcome["variants"][0]["fields"][ofields.index("rule")]["ty_s"].endswith("Rule"),
       "C09|outcome-type", "Outcome must carry exactly the result value and a reference to its rule: %s" % ofields)
    # which field of Rule does Rule::expr() return?
    rexpr = [d for d, b in f.bodies.items() if b["name"] == "expr" and (b.get("impl") or {}).get("self_s") == "ruleset::rule::Rule"]
    expr_idx = None
    if len(rexpr) == 1:
        outs, _ = evalsum.summarize_fn(f, rexpr[0], arg_names=["self"])
        if len(outs) == 1 and outs[0][1] == "self.expr":
            expr_idx = [fl["name"] for fl in rule_adt["variants"][0]["fields"]].index("expr")
    ob(expr_idx is not None, "C09|rule-expr", "Rule::expr() must return the rule's own expression field")
    # ---- evaluate_value
    paths, it = evalsum.run_async_fn(f, ev_value, ["self", "facts"], opaque=lambda p: p == eval_rule[0], loop_bound=UNROLL)
    got = set()
    for s, rv in paths:
        got.add((frozenset(norm_cond(c) for c in s.conds), tuple(events_of(s)), show(norm(it.resolve(s, rv)))))
    sources = ["into_iter([Rule]::iter(self.rules))", "into_iter(self.rules)", "[Rule]::iter(self.rules)"]
    match = None
    for src in sources:
        want = set()
        for k in range(UNROLL + 1):
            conds, events = [], [("call", "BTreeMap::new"), ("call", "Vec::new")]
            if "]::iter(" in src:
                events.append(("call", "[Rule]::iter", "self.rules"))
            results = "Vec::new()"
            for i in range(k):
                el = "elem%d(%s)" % (i, src)
                call = ER + "(%s.%d, self, BTreeMap::new(), facts)" % (el, expr_idx if expr_idx is not None else 0)
                vals = {"value": "await(%s)" % call, "rule": el}
                oc = "Outcome(%s)" % ", ".join(vals[n] for n in ofields)
                conds.append(("next(%s, #%d)" % (src, i), "ok"))
                events += [("next", src, i), ("call", ER, "%s.%d" % (el, expr_idx or 0), "self", "BTreeMap::new()", "facts"),
                           ("call", "Vec::push", results, oc)]
                results = "push(%s, %s)" % (results, oc)
            conds.append(("next(%s, #%d)" % (src, k), "fails"))
            events.append(("end", src, k))
            want.add((frozenset(conds), tuple(events), "Ok(%s)" % results))
        # the order of the two constructor calls before the loop is irrelevant
        def relax(ps):
            # which cache object is handed to the per-rule evaluation is C11's concern, not C09's
            import re
            def cache_free(x):
                return re.sub(r"(" + re.escape(ER) + r"\([^,]*, self, )[\w:<>]+\(\)", r"\1CACHE", x) if isinstance(x, str) else x
            out = set()
            for c, evs, r in ps:
                evs2 = []
                for e in evs:
                    if e[0] == "call" and len(e) == 2:
                        continue      # constructors without arguments (the result list, the cache)
                    if e[0] == "call" and e[1] == ER:
                        e = e[:4] + ("CACHE",) + e[5:]
                    evs2.append(tuple(cache_free(x) for x in e))
                out.add((c, tuple(evs2), cache_free(r)))
            return out
        if relax(got) == relax(want):
            match = src
            break
    if match is None:
        def fmt(ps):
            return [{"when": sorted("%s %s" % c for c in cs), "events": [" ".join(str(x) for x in e) for e in ev], "result": r} for cs, ev, r in sorted(ps, key=repr)]
        ob(False, "C09|evaluate_value",
           "evaluate_value must push exactly one Outcome{value: result of evaluating that rule's expression (stored, not propagated), rule: that rule} per rule, "
           "in the order of the rules, sharing one fresh cache, and return Ok(all outcomes)",
           {"found_paths": fmt(got)[:4], "expected_paths (one accepted iterator spelling)": fmt(want)[:4]})
    else:
        ob(True, "C09|evaluate_value", "")
    # ---- evaluate: serialise, fail only there, delegate
    paths, it = evalsum.run_async_fn(f, ev_fn, ["self", "facts"], opaque=lambda p: p == ev_value)
    got = sorted((tuple(sorted(norm_cond(c) for c in s.conds)), tuple(events_of(s)), show(norm(it.resolve(s, rv)))) for s, rv in paths)
    S = "impl Serialize::serialize(facts, ValueSerializer)"
    want = sorted([(((S, "fails"),), (("call", "impl Serialize::serialize", "facts", "ValueSerializer"),), "Err(impl Serialize::serialize!err(facts, ValueSerializer))"),
                   (((S, "ok"),), (("call", "impl Serialize::serialize", "facts", "ValueSerializer"),
                                   ("call", "RuleSet::evaluate_value", "self", "impl Serialize::serialize!(facts, ValueSerializer)")),
                    "await(RuleSet::evaluate_value(self, impl Serialize::serialize!(facts, ValueSerializer)))")])
    ob(got == want, "C09|evaluate", "evaluate must serialise the input with the Value serializer, fail only if that fails, and otherwise return "
       "evaluate_value(self, serialized) unchanged: %s" % got)
    # isolation also needs the one thing the rules share — the per-evaluation function cache — to be transparent:
    # a cached entry must be the successful result of the same (function, argument); otherwise one rule's call
    # (or failure) changes another rule's outcome.  The transparency rules are C11's; their verdict is imported.
    import c11
    from framework import Result
    r11 = Result("C11", "other")
    c11.run(r11, f, tier)
    poisoning = [v for v in r11.violations if v["key"] in ("C11|same-key", "C11|key-content", "C11|hit", "C11|miss-ok", "C11|failures-not-cached", "C11|right-function")]
    ob(not poisoning, "C09|shared-cache-transparent",
       "the function cache shared by the rules of one evaluation is not transparent, so a rule's outcome can depend on the other rules: %s" % [v["what"][:160] for v in poisoning],
       {"c11_findings": [v["key"] for v in poisoning]})
    # "in the order the rules were added": the ruleset evaluates self.rules front to back (above), so the order of
    # outcomes is the order in which the builder stored the rules.  Those storage rules are C15's; imported.
    import c15
    r15 = Result("C15", "other")
    c15.run(r15, f, tier)
    order = [v for v in r15.violations if v["key"] in ("C15|with_rule", "C15|with_rules", "C15|build")]
    ob(not order, "C09|rules-stored-in-order",
       "the builder does not keep the rules in the order they were added, so the outcomes are not in that order either: %s" % [v["what"][:160] for v in order],
       {"c15_findings": [v["key"] for v in order]})
    res.coverage = {
        "explanation": "All paths (rule loop unrolled %d times) of the coroutine bodies of RuleSet::evaluate_value and RuleSet::evaluate were enumerated with their "
                       "ordered calls; they must equal the specified path set: one push of Outcome{value: awaited per-rule result (no `?`), rule: the same rule} "
                       "per iteration of a plain forward iteration over self.rules, one cache and one result list created before the loop, return Ok(results)." % UNROLL,
        "obligations": obligations, "discharged": discharged, "paths": len(paths) + UNROLL + 1,
        "iterator_spelling": match,
        "rule": "path set == specification",
        "samples": [{"when": sorted("%s %s" % c for c in cs), "events": [" ".join(str(x) for x in e) for e in ev][:8], "result": r[:300]} for cs, ev, r in got][:2],
        "exhaustive": True,
    }
    res.assumptions = ["Vec::push appends, slice iteration is in index order (std)", "the per-rule evaluation itself (eval_rule) is opaque here; its isolation from other rules rests on C11/C12"]
