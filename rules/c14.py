"""C14 — a rule's name, description, metadata and expression are extracted exactly (decided clauses).

Decided: constant folding of metadata values is exhaustive over the 47 node kinds; the metadata table
(name key / other keys x folding outcome); precedence of the name and description sources; the rule grammar
is `MetaItem* Expr` over the same expression language; the flow of the comment lines (first -> name, rest ->
description, offered unconditionally).  NOT decided: how a line is recognised as a //-comment and trimmed
(line-oriented string processing in Rule::parse)."""
import re
import evalsum
import cfg
import precedence
from c07 import extracted_grammar, reachable
from framework import Inconclusive
from norm import norm, norm_cond, short_callee, show
from tss import Interp, State

LEVEL = "other"
EXPR = "expr::Expr"
TAGS = ["String", "Int", "Float", "Decimal", "Bool", "DateTime", "Duration", "Vec", "Map", "None"]


def find1(f, name, self_part):
    c = [d for d, b in f.bodies.items() if b["name"] == name and b["kind"] in ("Fn", "AssocFn") and
         (self_part in (b.get("impl") or {}).get("self_s", "") if self_part else (not b.get("impl") and d.startswith("parse::rule")))]
    if len(c) != 1:
        raise Inconclusive("anchor %s::%s not found (%s)" % (self_part, name, c))
    return c[0]


def closure_summary_opaque(f, path, opaque_fn):
    """summary of a closure body (arguments e / (e0, e1)) with one function kept opaque"""
    b = f.bodies[path]
    it = Interp(f, opaque=lambda p: p == opaque_fn)
    st = State()
    fid = it.new_frame(st)
    st.frames[fid][1] = ("closure", path, ())
    for i in range(b["arg_count"] - 1):
        ty = f.ty(b["locals"][i + 2]["ty"])
        if ty["k"] == "tuple":
            st.frames[fid][i + 2] = ("tup", tuple(("sym", "e%d" % j) for j in range(len(ty["args"]))))
        else:
            st.frames[fid][i + 2] = ("sym", "e")
    res = it.run_body(b, st, fid, 0)
    return sorted((tuple(sorted(set(norm_cond(c) for c in s.conds))), show(norm(it.resolve(s, rv)))) for s, rv in res)


def run(res, f, tier):
    obligations = discharged = 0
    samples = []

    def ob(ok, key, what, detail=None):
        nonlocal obligations, discharged
        obligations += 1
        if ok:
            discharged += 1
        else:
            res.violation(key, what, detail)

    # the constant folder: the crate-local free function (Expr) -> Result<Value, _> (today `flatten`)
    folders = [d for d, b in f.bodies.items() if b["kind"] in ("Fn", "AssocFn") and not b.get("parent") and b["arg_count"] == 1
               and f.ty_s(b["locals"][1]["ty"]) == EXPR
               and (f.ty_s(b["locals"][0]["ty"]).startswith("std::result::Result<value::Value,") or f.ty_s(b["locals"][0]["ty"]) == "std::option::Option<value::Value>")
               and "parse::reval::" not in d and "parse::" in d]
    if len(folders) != 1:
        raise Inconclusive("the constant folder (a function Expr -> Result<Value, _> or Option<Value> in the parser) was not found: %s" % folders)
    flatten = folders[0]
    FS = short_callee(flatten)
    # the folder says "not a constant" either with an error or with None
    optional = f.ty_s(f.bodies[flatten]["locals"][0]["ty"]).startswith("std::option::Option<")
    OKW = "Some" if optional else "Ok"
    REJ_ITEM = "Option::None" + "%.0s" if optional else "Err(%s)"
    import c17

    def element_fn_ok(spec_, pair):
        """the function mapped over the items of a list / the entries of a map folds each item (keeps each key)"""
        m_fn = re.fullmatch(r"fn (.+)", spec_)
        m_cl = re.fullmatch(r"closure\((.+)\)", spec_)
        if m_fn:
            target = [d for d in f.bodies if short_callee(d) == m_fn.group(1) or d == m_fn.group(1)]
            if not pair:
                return target == [flatten]
            if len(target) != 1:
                return False
            o_, _ = evalsum.summarize_fn(f, target[0], arg_names=["kv"], opaque=lambda p: p == flatten)
            rows_ = sorted((c, r) for c, r, _, _ in o_)
            return rows_ == sorted([(((FS + "(kv.1)", "fails"),), REJ_ITEM % (FS + "!err(kv.1)")), (((FS + "(kv.1)", "ok"),), OKW + "(tuple(kv.0, %s!(kv.1)))" % FS)])
        if m_cl:
            cpath = m_cl.group(1)
            if cpath not in f.bodies:
                # `closure(path, captures...)`: the path itself may contain commas inside generic arguments
                depth_, cut = 0, len(cpath)
                for i_, ch in enumerate(cpath):
                    if ch in "<([{":
                        depth_ += 1
                    elif ch in ">)]}" and not cpath[i_ - 1:i_] == "-":
                        depth_ -= 1
                    elif ch == "," and depth_ == 0:
                        cut = i_
                        break
                cpath = cpath[:cut]
            if cpath not in f.bodies:
                return False
            cs = closure_summary_opaque(f, cpath, flatten)
            if not pair:
                return cs in ([((), "%s(e)" % FS)],)
            return cs == sorted([(((FS + "(e1)", "fails"),), REJ_ITEM % (FS + "!err(e1)")), (((FS + "(e1)", "ok"),), OKW + "(tuple(e0, %s!(e1)))" % FS)])
        return False

    # ---- constants only, all shapes: tag table of the folder over the 47 node kinds
    nkinds = 0
    reject = set()
    for var in f.adts[EXPR]["variants"]:
        nkinds += 1
        it = Interp(f)
        it.walkers_opaque = False      # the folder and its per-collection helpers are what is being read here
        st = State()
        v = evalsum.sym_fields(it, EXPR, var["name"], "e")
        rows = sorted((tuple(sorted(norm_cond(c) for c in s.conds)), show(norm(it.resolve(s, rv)))) for s, rv in it.run(flatten, [v], st))
        k = var["name"]
        if k == "Value":
            good = rows == [((), OKW + "(e.Value.0)")]
        elif k in ("Vec", "Map"):
            # Ok(<Vec|Map>(collect of the folded items)) or the first folding error
            good = False
            if len(rows) == 2 and all(len(c) == 1 for c, _ in rows) and rows[0][0][0][0] == rows[1][0][0][0]:
                C = rows[0][0][0][0]
                mm_ = re.fullmatch(r"\w+::collect\(\w+::map\(into_iter\(e\.%s\.0\), (.+)\)\)" % k, C)
                byc = dict((c[0][1], r) for c, r in rows)
                okr = byc.get("ok", "")
                good = bool(mm_) and element_fn_ok(mm_.group(1), k == "Map") and byc.get("fails") == REJ_ITEM % C.replace("collect(", "collect!err(", 1) \
                    and okr in ("%s(%s(%s))" % (OKW, k, C.replace("collect(", "collect!(", 1)),)
        else:
            good = len(rows) == 1 and not rows[0][0] and (rows[0][1] == "Option::None" if optional else re.fullmatch(r"Err\(\w+\)", rows[0][1]) is not None)
            if good:
                reject.add(rows[0][1])
        ob(good, "C14|flatten|%s" % k, "constant folding of a %s node: a literal folds to its value, a list / map folds item by item (first failure wins), "
           "anything else is rejected: found %s" % (k, rows))
        if k in ("Value", "Vec", "Neg"):
            samples.append({"flatten": k, "outcomes": [r for _, r in rows]})
    ob(len(reject) == 1, "C14|flatten|rejection", "every non-constant node must be rejected with the same error: %s" % sorted(reject))
    res.floor("node kinds folded", nkinds, 47)
    # ---- assembly of the rule, end to end: Rule::parse is summarised with the generated parser replaced by "a syntax
    # error, or the builder the grammar's Rule action makes of these metadata items and this expression" (the function
    # (Vec<(String, Expr)>, Expr) -> Result<builder, _> run on a known list of 0 / 1 / 2 items with symbolic keys and
    # values, the constant folder opaque).  What comes out is the finished Rule (or the error) as a function of the
    # items, the comment lines and the expression — whatever types and helper functions carry the data in between.
    rp = evalsum.find_by_name(f, "parse", "ruleset::rule::Rule")
    if len(rp) != 1:
        raise Inconclusive("Rule::parse not found")
    makers = [d for d, b in f.bodies.items() if b["kind"] in ("Fn", "AssocFn") and not b.get("parent") and b["arg_count"] == 2
              and f.ty_s(b["locals"][1]["ty"]) == "std::vec::Vec<(std::string::String, expr::Expr)>" and f.ty_s(b["locals"][2]["ty"]) == EXPR
              and f.ty_s(b["locals"][0]["ty"]).startswith("std::result::Result<") and not d.startswith("parse::reval::")]
    rparser = [d for d in f.bodies if d.endswith("::RuleParser::parse") and d.startswith("parse::reval::")]
    if len(makers) != 1 or len(rparser) != 1:
        raise Inconclusive("the builder constructor (Vec<(String, Expr)>, Expr) -> Result<_, _> / the generated RuleParser::parse were not found: %s %s" % (makers, rparser))
    rule_adt = f.adts.get("ruleset::rule::Rule")
    if not rule_adt:
        raise Inconclusive("Rule type not found")
    rfields = rule_adt["variants"][0]["fields"]
    def field_of(pred, what):
        c = [i for i, fl in enumerate(rfields) if pred(re.sub(r"'\w+ ", "", fl.get("ty_s", "")))]
        if len(c) != 1:
            raise Inconclusive("Rule has no single %s field" % what)
        return c[0]
    I_NAME = field_of(lambda t: t == "std::string::String", "String (name)")
    I_META = field_of(lambda t: t.startswith("std::collections::BTreeMap<std::string::String, value::Value"), "metadata map")
    I_EXPR = field_of(lambda t: t == EXPR, "expression")

    def top_args(t):
        inner = t[t.index("(") + 1:-1]
        out, depth, cur = [], 0, ""
        for ch in inner:
            if ch in "([":
                depth += 1
            elif ch in ")]":
                depth -= 1
            if ch == "," and depth == 0:
                out.append(cur.strip())
                cur = ""
            else:
                cur += ch
        if cur.strip():
            out.append(cur.strip())
        return out

    def assemble(n_items):
        def model(self, st, fn, args, depth, stack):
            R_ = self.RESULT
            out = []
            s_err = st.fork()
            s_err.conds.append((("call", "RuleParser::parse", (("sym", "input"),)), "is", "Err"))
            out.append((s_err, self.mk(R_, "Err", ("sym", "syntax_error"))))
            s_ok = st.fork()
            s_ok.conds.append((("call", "RuleParser::parse", (("sym", "input"),)), "is", "Ok"))
            meta = ("op", "array", tuple(("tup", (("sym", "K%d" % i), ("sym", "V%d" % i))) for i in range(n_items)))
            fnd = {"path": makers[0], "full": makers[0], "name": f.bodies[makers[0]]["name"], "local": True, "resolved": makers[0], "resolved_local": True, "args": []}
            for s2, rv in self.call_fn(s_ok, fnd, [meta, ("sym", "expr")], depth, stack):
                for s3, var, pl in self.cases(s2, rv, R_):
                    out.append((s3, self.mk(R_, "Ok", pl[0]) if var == "Ok" else self.mk(R_, "Err", ("op", "user_error", (pl[0],)))))
            return out
        it_ = Interp(f, opaque=lambda p: p == flatten, loop_bound=2, max_paths=60000, models={rparser[0]: model})
        rows_ = []
        for s, rv in it_.run(rp[0], [("sym", "input")], State()):
            conds = dict(norm_cond(c) for c in s.conds)
            nexts = [(e[0], show(norm(e[1])), e[2]) for e in s.events if e[0] in ("iter_next", "iter_end")]
            rows_.append((conds, nexts, show(norm(it_.resolve(s, rv))), set(s.flags)))
        return rows_

    def item_facts(conds, i):
        """('name' | 'other' | None, 'err' | 'ok' | 'ok:<Tag>' | None) of metadata item i on this path"""
        K, V = "K%d" % i, "V%d" % i
        cand = [v_ for k_, v_ in conds.items() if re.search(r"\b%s\b" % K, k_) and "'name'" in k_ and ("::eq" in k_ or "::ne" in k_ or k_.startswith(("Eq(", "key_eq(")))]
        isname = None
        if len(cand) == 1:
            neg = [k_ for k_ in conds if re.search(r"\b%s\b" % K, k_) and "'name'" in k_][0]
            truth = cand[0] == "val not:0"
            if "::ne" in neg:
                truth = not truth
            isname = "name" if truth else "other"
        fl = conds.get("%s(%s)" % (FS, V))
        tag = conds.get("%s!(%s)" % (FS, V), "")
        fold = None if fl is None else ("err" if fl == "fails" else ("ok:" + tag[3:] if tag.startswith("is ") else "ok"))
        return isname, fold

    problems = []
    classes = set()
    FOK = lambda i: "%s!(V%d)" % (FS, i)
    for n_items in (0, 1, 2):
        for conds, nexts, ret, flags in assemble(n_items):
            if conds.get("RuleParser::parse(input)") == "fails":
                classes.add("syntax-error")
                if not ret.startswith("Err(RuleParseError("):
                    problems.append(("a syntax error must be reported as RuleParseError", ret[:120]))
                continue
            items = [item_facts(conds, i) for i in range(n_items)]
            # the first item that is rejected ends the parse with its own error
            rejected = None
            for i, (isname, fold) in enumerate(items):
                if fold == "err":
                    rejected = (i, "InvalidMetadata(K%d)" % i)
                    break
                if isname == "name" and fold and fold.startswith("ok:") and fold != "ok:String":
                    rejected = (i, "InvalidNameValue")
                    break
                if fold is None or (isname is None and fold != "err"):
                    rejected = (i, None)
                    break
            if rejected is not None:
                i, marker = rejected
                if marker is None:
                    problems.append(("the path does not decide whether item %d is @name and whether its value is a constant" % i, sorted(conds.items())[:4]))
                    continue
                classes.add("reject:%s:%s" % (items[i][0] or "any", marker.split("(")[0]))
                if not (ret.startswith("Err(") and marker in ret):
                    problems.append(("metadata item %d must be rejected with %s" % (i, marker), ret[:160]))
                continue
            if any(isname == "name" and fold == "ok" for isname, fold in items):
                problems.append(("@name is accepted without looking at the kind of constant", ret[:160]))
                continue
            # comment lines: one iterator over the input text; how many items were drawn
            srcs = sorted(set(n[1] for n in nexts))
            if len(srcs) > 1 or (srcs and "input" not in srcs[0]):
                problems.append(("comment lines must come from one iterator over the input text", srcs))
                continue
            SRC = srcs[0] if srcs else None
            # a line is a comment line (or not) by itself: a recogniser that carries state from one line to the next (a
            # closure that writes to what it captured) makes earlier lines decide whether later comment lines count
            def writes_captures(c_):
                for blk_ in f.bodies[c_]["blocks"]:
                    for st_ in blk_["stmts"]:
                        if st_["k"] != "assign":
                            continue
                        pl_ = st_["place"]
                        if pl_["l"] == 1 and any(e_[0] == "field" for e_ in pl_["p"]):
                            return True
                        rv_ = st_["rv"]
                        if rv_["k"] in ("ref", "rawptr") and rv_.get("bk") == "mut" and rv_["place"]["l"] == 1 and any(e_[0] == "field" for e_ in rv_["place"]["p"]):
                            return True
                return False
            stateful = [c_ for c_ in re.findall(r"closure\(([^(),]+)", SRC or "") if c_ in f.bodies and writes_captures(c_)]
            if stateful:
                problems.append(("whether a line counts as a comment line must not depend on the lines before it: the recogniser %s keeps state between lines" % stateful[0], SRC[:200]))
                continue
            drawn = len([n for n in nexts if n[0] == "iter_next"])
            E0, E1 = "elem0(%s)" % SRC, "elem1(%s)" % SRC
            # are there comment lines after the first?  Asked by drawing a second item, or by collecting the remainder
            # and testing it for emptiness
            if drawn >= 2:
                rest = True
            elif drawn == 1:
                # (emptiness of the *collection* of remaining lines; whether their joined text is empty is another question:
                # one empty comment line is a description, the empty one)
                empt = [v_ for k_, v_ in conds.items() if re.fullmatch(r"(?:Vec|\[[^\]]*\])::is_empty\((?:\w+::collect\()?%s\)?\)" % re.escape(SRC), k_)]
                rest = (empt[0] == "val 0") if len(empt) == 1 else (False if not empt and conds.get("next(%s, #1)" % SRC) == "fails" else None)
                if rest is None:
                    problems.append(("after the first comment line the path does not establish whether more follow", sorted(conds.items())[:6]))
                    continue
            else:
                rest = False
            drew_second = drawn >= 2
            drawn = 0 if drawn == 0 else (2 if rest else 1)
            item0 = re.compile(r"^(?:[\w:]+\()*" + re.escape(E0) + r"\)*$")
            meta_names = [FOK(i) + ".String.0" for i, (isname, fold) in enumerate(items) if isname == "name"]
            # expected name
            if meta_names:
                want_name = lambda x: x == meta_names[-1]
                name_src = "meta"
            elif drawn >= 1:
                want_name = lambda x: bool(item0.match(x))
                name_src = "comment"
            else:
                classes.add("missing-name")
                if ret != "Err(MissingRuleName)":
                    problems.append(("text that supplies no name must be rejected with MissingRuleName", ret[:160]))
                continue
            if not (ret.startswith("Ok(Rule(") and ret.endswith("))")):
                problems.append(("a rule with a name and constant metadata must be built", ret[:200]))
                continue
            args_ = top_args(ret[3:-1])
            if len(args_) != len(rfields):
                problems.append(("unexpected Rule value", ret[:200]))
                continue
            # expected metadata: the other items in order, then the comment description unless @description was written
            base = "BTreeMap::new()"
            desc_written = None     # True / False / 'depends'
            ok_meta = True
            for i, (isname, fold) in enumerate(items):
                if isname != "other":
                    continue
                base = "insert(%s, K%d, %s)" % (base, i, FOK(i))
            others = [i for i, (isname, _) in enumerate(items) if isname == "other"]
            # is one of the other keys `description`?  (the paths fork on key_eq('description', Ki))
            eqs = [conds.get("key_eq('description', K%d)" % i) for i in others]
            written = any(e == "val not:0" for e in eqs)
            undecided = [i for i, e in zip(others, eqs) if e is None]
            got_meta = args_[I_META]
            if drawn >= 2 and not written:
                if undecided:
                    problems.append(("with comment lines after the first, whether @description was written must decide the description", sorted(conds.items())[:6]))
                    continue
                md = re.fullmatch(re.escape("insert(%s, 'description', String(" % base) + r"(.*)\)\)", got_meta)
                # every line after the first and only those: a second item drawn by hand must be part of the text
                ok_meta = bool(md) and SRC in md.group(1) and E0 not in md.group(1) and (E1 in md.group(1) or not drew_second)
                classes.add("description:comment")
            else:
                ok_meta = got_meta == base
                if drawn >= 2:
                    classes.add("description:meta-wins")
            if not ok_meta:
                problems.append(("metadata must be the @key items other than name in order (last occurrence wins), plus the comment lines after the first as "
                                 "description unless @description was written", {"items": items, "comment_lines": drawn, "metadata": got_meta[:300]}))
                continue
            if not want_name(args_[I_NAME]):
                problems.append(("the name must be @name when written, otherwise the first comment line", {"items": items, "comment_lines": drawn, "name": args_[I_NAME][:200]}))
                continue
            if args_[I_EXPR] != "expr":
                problems.append(("the expression must be the one the grammar produced", args_[I_EXPR][:120]))
                continue
            classes.add("built:%d:%s:%d" % (n_items, name_src, min(drawn, 2)))
            for i, (isname, fold) in enumerate(items):
                classes.add("item:%s:%s" % (isname, fold))
            if len(samples) < 6 and n_items == 1 and drawn == 2:
                samples.append({"items": [list(x) for x in items], "comment_lines": drawn, "rule": ret[:260]})
    required = {"syntax-error", "missing-name", "reject:any:InvalidMetadata", "reject:name:InvalidNameValue", "description:comment", "description:meta-wins",
                "built:0:comment:1", "built:0:comment:2", "built:1:meta:0", "built:1:meta:1", "built:1:meta:2", "built:1:comment:1", "built:1:comment:2",
                "built:2:meta:0", "built:2:comment:2", "item:name:ok:String", "item:other:ok"}
    missing_classes = sorted(c for c in required if not any(x == c or (c.startswith("reject:any:") and x.split(":")[-1] == c.split(":")[-1]) for x in classes))
    ob(not problems, "C14|assembly", "the rule Rule::parse assembles from the metadata items, the comment lines and the expression differs from the extraction rules: %s" % problems[:3],
       {"problems": problems[:6]})
    ob(not missing_classes, "C14|assembly-classes", "not every case of the extraction rules was found among the paths of Rule::parse: missing %s" % missing_classes,
       {"seen": sorted(classes)})
    for t in TAGS:
        if t != "String":
            ob(("reject:name:InvalidNameValue" in classes) and not any(p_[0].startswith("@name is accepted") for p_ in problems), "C14|meta|name-%s" % t, "@name with a %s constant must be rejected" % t)
    r = rows_of_fn = None
    def rows_of(name, self_part, args):
        d = find1(f, name, self_part)
        outs, _ = evalsum.summarize_fn(f, d, arg_names=args)
        return sorted((c, r) for c, r, _, _ in outs)
    r = rows_of("description", "ruleset::rule::Rule", ["self"])
    G = "BTreeMap::get(self.metadata, 'description')"
    good = all((ret == "Some(BTreeMap::get!(self.metadata, 'description').String.0)") == (("BTreeMap::get!(self.metadata, 'description')", "is String") in c) for c, ret in r) and \
        all(ret in ("Option::None", "Some(BTreeMap::get!(self.metadata, 'description').String.0)") for _, ret in r) and len(r) == 11
    ob(good, "C14|description", "description() must be Some exactly for a string-valued description entry: %s" % r[:3])
    # ---- same expression language: Rule = MetaItem* Expr with the very Expr of the stand-alone parser
    g, Pg = extracted_grammar(f)
    # the expression language itself is C07's: here `Expr` is opaque, and the rule text must be metadata items
    # followed by that very nonterminal, which is also the start symbol of the stand-alone expression parser
    starts = dict((p["lhs"], (list(p["rhs"]), p["term"])) for p in g["prods"] if p["lhs"].startswith("__"))
    same_start = all(starts.get("__" + n, (None, None))[0] == [n] and [t for _, t in starts["__" + n][1]] == ["$0"] for n in ("Expr", "Rule"))
    Pg = reachable([x for x in Pg if x[0] != "Expr"], ["Rule"])
    Ps = reachable([x for x in precedence.productions() if x[0] != "Expr"], ["Rule"])
    Ig = cfg.inline_nonrecursive(Pg, keep={"Rule"})
    Is = cfg.inline_nonrecursive(Ps, keep={"Rule"})
    cls, _ = cfg.bisimulation_classes(Is, Ig)
    rule_same = same_start and cls.get("a:Rule") is not None and cls.get("a:Rule") == cls.get("b:Rule")
    rule_prods = [(l, r, t) for l, r, t in Ig if l == "Rule"]
    uses_same_expr = all(r[-1] == "Expr" for _, r, _ in rule_prods) and len(rule_prods) == 2
    ob(rule_same and uses_same_expr, "C14|grammar", "rule text must be `(@key: Expr;)* Expr` over the same expression nonterminal as the stand-alone expression parser",
       {"rule_productions": rule_prods})
    res.coverage = {
        "explanation": "47-cell tag table of the constant folder, 14-cell metadata table of RuleBuilder::parse, the four precedence functions and the Rule productions of the "
                       "generated grammar were compared with the extraction rules.  The comment-line extraction of name/description is not decided.",
        "obligations": obligations, "discharged": discharged,
        "rule": "summaries == metadata specification; Rule grammar == MetaItem* Expr",
        "samples": samples,
        "exhaustive": True,
    }
    res.assumptions = ["Result-collect stops at the first error (std)", "BTreeMap::insert overwrites (last occurrence wins)",
                       "NOT decided: first //-comment line = name, remaining lines joined by newline = description (string processing independent of the grammar)"]
