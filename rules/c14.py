"""C14 — a rule's name, description, metadata and expression are extracted exactly (decided clauses).

Decided: constant folding of metadata values is exhaustive over the 47 node kinds; the metadata table
(name key / other keys x folding outcome); precedence of the name and description sources; the rule grammar
is `MetaItem* Expr` over the same expression language; the flow of the comment lines (first -> name, rest ->
description, offered unconditionally).  NOT decided: how a line is recognised as a //-comment and trimmed
(line-oriented string processing in Rule::parse)."""
import re
import evalsum
import cfg
import precedence
from c07 import extracted_grammar, reachable
from framework import Inconclusive
from norm import norm, norm_cond, short_callee, show
from tss import Interp, State

LEVEL = "other"
EXPR = "expr::Expr"
TAGS = ["String", "Int", "Float", "Decimal", "Bool", "DateTime", "Duration", "Vec", "Map", "None"]


def find1(f, name, self_part):
    c = [d for d, b in f.bodies.items() if b["name"] == name and b["kind"] in ("Fn", "AssocFn") and
         (self_part in (b.get("impl") or {}).get("self_s", "") if self_part else (not b.get("impl") and d.startswith("parse::rule")))]
    if len(c) != 1:
        raise Inconclusive("anchor %s::%s not found (%s)" % (self_part, name, c))
    return c[0]


def closure_summary_opaque(f, path, opaque_fn):
    """summary of a closure body (arguments e / (e0, e1)) with one function kept opaque"""
    b = f.bodies[path]
    it = Interp(f, opaque=lambda p: p == opaque_fn)
    st = State()
    fid = it.new_frame(st)
    st.frames[fid][1] = ("closure", path, ())
    for i in range(b["arg_count"] - 1):
        ty = f.ty(b["locals"][i + 2]["ty"])
        if ty["k"] == "tuple":
            st.frames[fid][i + 2] = ("tup", tuple(("sym", "e%d" % j) for j in range(len(ty["args"]))))
        else:
            st.frames[fid][i + 2] = ("sym", "e")
    res = it.run_body(b, st, fid, 0)
    return sorted((tuple(sorted(set(norm_cond(c) for c in s.conds))), show(norm(it.resolve(s, rv)))) for s, rv in res)


def run(res, f, tier):
    obligations = discharged = 0
    samples = []

    def ob(ok, key, what, detail=None):
        nonlocal obligations, discharged
        obligations += 1
        if ok:
            discharged += 1
        else:
            res.violation(key, what, detail)

    # the constant folder: the crate-local free function (Expr) -> Result<Value, _> (today `flatten`)
    folders = [d for d, b in f.bodies.items() if b["kind"] == "Fn" and not b.get("parent") and b["arg_count"] == 1
               and f.ty_s(b["locals"][1]["ty"]) == EXPR and f.ty_s(b["locals"][0]["ty"]).startswith("std::result::Result<value::Value,")
               and not d.startswith("parse::reval::")]
    if len(folders) != 1:
        raise Inconclusive("the constant folder (a function Expr -> Result<Value, _>) was not found: %s" % folders)
    flatten = folders[0]
    FS = short_callee(flatten)
    import c17

    def element_fn_ok(spec_, pair):
        """the function mapped over the items of a list / the entries of a map folds each item (keeps each key)"""
        m_fn = re.fullmatch(r"fn (.+)", spec_)
        m_cl = re.fullmatch(r"closure\((.+)\)", spec_)
        if m_fn:
            target = [d for d in f.bodies if short_callee(d) == m_fn.group(1) or d == m_fn.group(1)]
            if not pair:
                return target == [flatten]
            if len(target) != 1:
                return False
            o_, _ = evalsum.summarize_fn(f, target[0], arg_names=["kv"], opaque=lambda p: p == flatten)
            rows_ = sorted((c, r) for c, r, _, _ in o_)
            return rows_ == sorted([(((FS + "(kv.1)", "fails"),), "Err(%s!err(kv.1))" % FS), (((FS + "(kv.1)", "ok"),), "Ok(tuple(kv.0, %s!(kv.1)))" % FS)])
        if m_cl:
            cs = closure_summary_opaque(f, m_cl.group(1).split(",")[0], flatten)
            if not pair:
                return cs in ([((), "%s(e)" % FS)],)
            return cs == sorted([(((FS + "(e1)", "fails"),), "Err(%s!err(e1))" % FS), (((FS + "(e1)", "ok"),), "Ok(tuple(e0, %s!(e1)))" % FS)])
        return False

    # ---- constants only, all shapes: tag table of the folder over the 47 node kinds
    nkinds = 0
    reject = set()
    for var in f.adts[EXPR]["variants"]:
        nkinds += 1
        it = Interp(f)
        st = State()
        v = evalsum.sym_fields(it, EXPR, var["name"], "e")
        rows = sorted((tuple(sorted(norm_cond(c) for c in s.conds)), show(norm(it.resolve(s, rv)))) for s, rv in it.run(flatten, [v], st))
        k = var["name"]
        if k == "Value":
            good = rows == [((), "Ok(e.Value.0)")]
        elif k in ("Vec", "Map"):
            # Ok(<Vec|Map>(collect of the folded items)) or the first folding error
            good = False
            if len(rows) == 2 and all(len(c) == 1 for c, _ in rows) and rows[0][0][0][0] == rows[1][0][0][0]:
                C = rows[0][0][0][0]
                mm_ = re.fullmatch(r"\w+::collect\(\w+::map\(into_iter\(e\.%s\.0\), (.+)\)\)" % k, C)
                byc = dict((c[0][1], r) for c, r in rows)
                okr = byc.get("ok", "")
                good = bool(mm_) and element_fn_ok(mm_.group(1), k == "Map") and byc.get("fails") == "Err(%s)" % C.replace("collect(", "collect!err(", 1) \
                    and okr in ("Ok(%s(%s))" % (k, C.replace("collect(", "collect!(", 1)),)
        else:
            good = len(rows) == 1 and not rows[0][0] and re.fullmatch(r"Err\(\w+\)", rows[0][1]) is not None
            if good:
                reject.add(rows[0][1])
        ob(good, "C14|flatten|%s" % k, "constant folding of a %s node: a literal folds to its value, a list / map folds item by item (first failure wins), "
           "anything else is rejected: found %s" % (k, rows))
        if k in ("Value", "Vec", "Neg"):
            samples.append({"flatten": k, "outcomes": [r for _, r in rows]})
    ob(len(reject) == 1, "C14|flatten|rejection", "every non-constant node must be rejected with the same error: %s" % sorted(reject))
    res.floor("node kinds folded", nkinds, 47)
    # ---- metadata table: one item, every (key is name?, folding outcome)
    parse = find1(f, "parse", "RuleBuilder")
    b = f.bodies[parse]
    it = Interp(f, opaque=lambda p: p == flatten, loop_bound=1)
    st = State()
    paths = it.run(parse, [("sym", "meta"), ("sym", "expr")], st)
    SRC = "into_iter(meta)"
    K, V = "elem0(%s).0" % SRC, "elem0(%s).1" % SRC
    ISNAME = "str::eq(String::index(%s, RangeFull), 'name')" % K
    FL = "%s(%s)" % (FS, V)
    seen = {}
    for s, rv in paths:
        conds = dict(norm_cond(c) for c in s.conds)
        ret = show(norm(it.resolve(s, rv)))
        if "loop_bound_hit" in s.flags and conds.get("next(%s, #1)" % SRC) is None and conds.get("next(%s, #0)" % SRC) == "ok" and not ret.startswith("Err("):
            pass
        if conds.get("next(%s, #0)" % SRC) == "fails":
            seen["empty"] = ret
            continue
        # the test "is this key `name`?" in whatever spelling (`match &key[..] { "name" => ..}`, `key == NAME_META`):
        # the one condition that compares the item's key with the constant 'name'
        isname = conds.get(ISNAME)
        if isname is None:
            cand = [v_ for k_, v_ in conds.items() if K in k_ and "'name'" in k_ and "::eq" in k_]
            isname = cand[0] if len(cand) == 1 else None
        fl = conds.get(FL)
        tag = conds.get("%s!(%s)" % (FS, V), "")
        outcome = "err" if fl == "fails" else ("ok:" + tag[3:] if tag else "ok")
        # a path that decides without asking whether the key is `name` holds for both kinds of key
        for kname in (("name", "other") if isname is None else (("name",) if isname == "val not:0" else ("other",))):
            seen.setdefault((kname, outcome), set()).add(ret)
    ob(seen.get("empty") == "Ok(RuleBuilder(Option::None, expr, BTreeMap::new()))", "C14|meta|none", "without metadata the rule builder must start with no name and no metadata: %s" % seen.get("empty"))
    ob(seen.get(("name", "ok:String")) == {"Ok(RuleBuilder(Some(%s!(%s).String.0), expr, BTreeMap::new()))" % (FS, V)}, "C14|meta|name-string",
       "@name with a string constant must become the rule name: %s" % seen.get(("name", "ok:String")))
    for t in TAGS:
        if t == "String":
            continue
        ob(seen.get(("name", "ok:" + t)) == {"Err(InvalidNameValue)"}, "C14|meta|name-%s" % t, "@name with a %s constant must be rejected: %s" % (t, seen.get(("name", "ok:" + t))))
    ob(seen.get(("name", "err")) == {"Err(InvalidMetadata(%s))" % K} and seen.get(("other", "err")) == {"Err(InvalidMetadata(%s))" % K}, "C14|meta|non-constant",
       "a non-constant metadata value must be rejected naming its key: %s / %s" % (seen.get(("name", "err")), seen.get(("other", "err"))))
    ob(seen.get(("other", "ok")) == {"Ok(RuleBuilder(Option::None, expr, insert(BTreeMap::new(), %s, %s!(%s))))" % (K, FS, V)}, "C14|meta|insert",
       "every other @key must be stored under its own key with the folded constant (BTreeMap::insert: the last occurrence wins): %s" % seen.get(("other", "ok")))
    # ---- precedence of sources
    def rows_of(name, self_part, args):
        d = find1(f, name, self_part)
        outs, _ = evalsum.summarize_fn(f, d, arg_names=args)
        return sorted((c, r) for c, r, _, _ in outs)
    r = rows_of("set_name", "RuleBuilder", ["self", "name"])
    ob(r == sorted([((("self.name", "is None"),), "RuleBuilder(Some(name), self.expr, self.metadata)"), ((("self.name", "is Some"),), "self")]),
       "C14|set_name", "the comment name applies only when @name did not set one: %s" % r)
    r = rows_of("set_description", "RuleBuilder", ["self", "description"])
    C = "BTreeMap::contains_key(self.metadata, 'description')"
    ob(r == sorted([(((C, "val 0"),), "RuleBuilder(self.name, self.expr, insert(self.metadata, 'description', String(description)))"), (((C, "val not:0"),), "self")]),
       "C14|set_description", "the comment description applies only when @description is absent: %s" % r)
    r = rows_of("build", "RuleBuilder", ["self"])
    ob(r == sorted([((("self.name", "is None"),), "Err(MissingRuleName)"), ((("self.name", "is Some"),), "Ok(Rule(self.name.Some.0, self.metadata, self.expr))")]),
       "C14|build", "a rule without a name must be rejected with MissingRuleName, otherwise built from name, metadata and expression unchanged: %s" % r)
    r = rows_of("description", "ruleset::rule::Rule", ["self"])
    G = "BTreeMap::get(self.metadata, 'description')"
    good = all((ret == "Some(BTreeMap::get!(self.metadata, 'description').String.0)") == (("BTreeMap::get!(self.metadata, 'description')", "is String") in c) for c, ret in r) and \
        all(ret in ("Option::None", "Some(BTreeMap::get!(self.metadata, 'description').String.0)") for _, ret in r) and len(r) == 11
    ob(good, "C14|description", "description() must be Some exactly for a string-valued description entry: %s" % r[:3])
    # ---- flow of the comment lines in Rule::parse: whatever iterator yields them, its FIRST item is offered as the
    # name and the REMAINING items, joined, as the description — both unconditionally (precedence is decided in
    # set_name / set_description, checked above); a rule without any comment line offers neither.
    pass
    rp = evalsum.find_by_name(f, "parse", "ruleset::rule::Rule")
    if len(rp) != 1:
        raise Inconclusive("Rule::parse not found")
    opq = lambda p: any(p.endswith(x) for x in ("RuleBuilder::set_name", "RuleBuilder::set_description", "RuleBuilder::build", "RuleParser::parse", "RuleParser::new"))
    it = Interp(f, opaque=opq, loop_bound=2)
    paths = it.run(rp[0], [("sym", "input")], State())
    flow_bad = []
    classes = set()
    for s, rv in paths:
        conds = dict(norm_cond(c) for c in s.conds)
        calls = [(short_callee(e[1]),) + tuple(show(norm(a)) for a in e[2]) for e in s.events if e[0] == "call"]
        nexts = [(e[0], show(norm(e[1])), e[2]) for e in s.events if e[0] in ("iter_next", "iter_end")]
        ret = show(norm(it.resolve(s, rv)))
        parsed = [c for c in calls if c[0] == "RuleParser::parse"]
        ok_parse = any(k.startswith("RuleParser::parse(") and v == "ok" for k, v in conds.items())
        if not ok_parse:
            classes.add("syntax-error")
            if not ret.startswith("Err(RuleParseError("):
                flow_bad.append(("a syntax error must be reported as RuleParseError", ret[:120]))
            continue
        B = parsed[0][0] + "!(" + ", ".join(parsed[0][1:]) + ")" if parsed else "?"
        sn = [c for c in calls if c[0] == "RuleBuilder::set_name"]
        sd = [c for c in calls if c[0] == "RuleBuilder::set_description"]
        bd = [c for c in calls if c[0] == "RuleBuilder::build"]
        srcs = sorted(set(n[1] for n in nexts))
        if len(srcs) != 1 or "input" not in srcs[0]:
            flow_bad.append(("comment lines must come from one iterator over the input text", srcs))
            continue
        SRC = srcs[0]
        first = [n for n in nexts if n[0] == "iter_next" and n[2] == 0]
        second = [n for n in nexts if n[0] == "iter_next" and n[2] == 1]
        if not first:
            classes.add("no-comment")
            if sn or sd or bd != [("RuleBuilder::build", B)]:
                flow_bad.append(("without comment lines neither a name nor a description may be offered", (sn, sd, bd)))
            continue
        E0, E1 = "elem0(%s)" % SRC, "elem1(%s)" % SRC
        # the first item itself, or the first item passed through per-item adaptors (`.map(str::trim)`)
        item0 = re.compile(r"^(?:[\w:]+\()*" + re.escape(E0) + r"\)*$")
        if not (len(sn) == 1 and sn[0][:2] == ("RuleBuilder::set_name", B) and len(sn[0]) == 3 and item0.match(sn[0][2])):
            flow_bad.append(("the first comment line must be offered as the name (unconditionally)", sn))
            continue
        cur = "RuleBuilder::set_name(%s, %s)" % (B, sn[0][2])
        if not second:
            classes.add("name-only")
            if sd or bd != [("RuleBuilder::build", cur)]:
                flow_bad.append(("a single comment line gives a name and no description", (sd, bd)))
            continue
        classes.add("name+description")
        good = (len(sd) == 1 and sd[0][1] == cur and E1 in sd[0][2] and SRC in sd[0][2] and E0 not in sd[0][2]
                and bd == [("RuleBuilder::build", "RuleBuilder::set_description(%s, %s)" % (cur, sd[0][2]))])
        if not good:
            flow_bad.append(("the comment lines after the first (and only those) must be joined into the description", (sd, bd)))
    ob(not flow_bad and classes >= {"syntax-error", "no-comment", "name-only", "name+description"}, "C14|comment-flow",
       "Rule::parse must offer the first comment line as the name and the remaining ones as the description, whatever @name/@description say: %s" % flow_bad[:3],
       {"path_classes": sorted(classes)})
    # ---- same expression language: Rule = MetaItem* Expr with the very Expr of the stand-alone parser
    g, Pg = extracted_grammar(f)
    # the expression language itself is C07's: here `Expr` is opaque, and the rule text must be metadata items
    # followed by that very nonterminal, which is also the start symbol of the stand-alone expression parser
    starts = dict((p["lhs"], (list(p["rhs"]), p["term"])) for p in g["prods"] if p["lhs"].startswith("__"))
    same_start = all(starts.get("__" + n, (None, None))[0] == [n] and [t for _, t in starts["__" + n][1]] == ["$0"] for n in ("Expr", "Rule"))
    Pg = reachable([x for x in Pg if x[0] != "Expr"], ["Rule"])
    Ps = reachable([x for x in precedence.productions() if x[0] != "Expr"], ["Rule"])
    Ig = cfg.inline_nonrecursive(Pg, keep={"Rule"})
    Is = cfg.inline_nonrecursive(Ps, keep={"Rule"})
    cls, _ = cfg.bisimulation_classes(Is, Ig)
    rule_same = same_start and cls.get("a:Rule") is not None and cls.get("a:Rule") == cls.get("b:Rule")
    rule_prods = [(l, r, t) for l, r, t in Ig if l == "Rule"]
    uses_same_expr = all(r[-1] == "Expr" for _, r, _ in rule_prods) and len(rule_prods) == 2
    ob(rule_same and uses_same_expr, "C14|grammar", "rule text must be `(@key: Expr;)* Expr` over the same expression nonterminal as the stand-alone expression parser",
       {"rule_productions": rule_prods})
    res.coverage = {
        "explanation": "47-cell tag table of the constant folder, 14-cell metadata table of RuleBuilder::parse, the four precedence functions and the Rule productions of the "
                       "generated grammar were compared with the extraction rules.  The comment-line extraction of name/description is not decided.",
        "obligations": obligations, "discharged": discharged,
        "rule": "summaries == metadata specification; Rule grammar == MetaItem* Expr",
        "samples": samples,
        "exhaustive": True,
    }
    res.assumptions = ["Result-collect stops at the first error (std)", "BTreeMap::insert overwrites (last occurrence wins)",
                       "NOT decided: first //-comment line = name, remaining lines joined by newline = description (string processing independent of the grammar)"]
