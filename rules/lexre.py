"""Regular languages over Unicode scalar values for the lexer table of the generated parser.

Parses the normalised regex syntax lalrpop emits into the generated file (literals, escapes, classes
with ranges, groups, alternation, * + ?), builds NFAs over code-point intervals and answers language
queries by subset / product construction.  Unknown syntax raises RegexSyntax (checks fail closed).
lalrpop's lexer semantics (lalrpop_util::lexer, read): anchored longest match over all patterns, ties
broken by the highest pattern index; skip patterns are dropped; an empty skip match is an error.
"""

MAXCP = 0x10FFFF


class RegexSyntax(Exception):
    pass


# ---------------------------------------------------------------- AST: ('lit', [(lo,hi),...]) | ('cat', [..]) | ('alt', [..]) | ('star', x) | ('plus', x) | ('opt', x) | ('empty',)

def parse(rx):
    p = _Parser(rx)
    node = p.alt()
    if p.i != len(p.s):
        raise RegexSyntax("trailing %r in %r" % (p.s[p.i:], rx))
    return node


class _Parser:
    def __init__(self, s):
        self.s = s
        self.i = 0

    def peek(self):
        return self.s[self.i] if self.i < len(self.s) else None

    def alt(self):
        branches = [self.cat()]
        while self.peek() == "|":
            self.i += 1
            branches.append(self.cat())
        return branches[0] if len(branches) == 1 else ("alt", branches)

    def cat(self):
        items = []
        while self.peek() is not None and self.peek() not in "|)":
            items.append(self.rep())
        if not items:
            return ("empty",)
        return items[0] if len(items) == 1 else ("cat", items)

    def rep(self):
        a = self.atom()
        while self.peek() in ("*", "+", "?"):
            c = self.peek()
            self.i += 1
            if self.peek() == "?":
                raise RegexSyntax("lazy quantifier")
            a = ({"*": "star", "+": "plus", "?": "opt"}[c], a)
        if self.peek() == "{":
            raise RegexSyntax("counted repetition")
        return a

    def atom(self):
        c = self.peek()
        if c == "(":
            self.i += 1
            if self.s.startswith("?:", self.i):
                self.i += 2
            elif self.peek() == "?":
                raise RegexSyntax("group flags")
            n = self.alt()
            if self.peek() != ")":
                raise RegexSyntax("unclosed group")
            self.i += 1
            return n
        if c == "[":
            return self.cls()
        if c == ".":
            raise RegexSyntax("unnormalised dot")
        if c in "^$":
            raise RegexSyntax("anchor")
        if c == "\\":
            cp = self.escape()
            return ("lit", [(cp, cp)])
        self.i += 1
        return ("lit", [(ord(c), ord(c))])

    def escape(self):
        assert self.s[self.i] == "\\"
        self.i += 1
        c = self.peek()
        if c is None:
            raise RegexSyntax("dangling backslash")
        self.i += 1
        table = {"n": 10, "r": 13, "t": 9, "0": 0}
        if c in table:
            return table[c]
        if c in "dDwWsSbBpPAzxuU":
            raise RegexSyntax("class escape \\%s" % c)
        return ord(c)

    def cls(self):
        assert self.s[self.i] == "["
        self.i += 1
        neg = False
        if self.peek() == "^":
            neg = True
            self.i += 1
        rs = []
        first = True
        while True:
            c = self.peek()
            if c is None:
                raise RegexSyntax("unclosed class")
            if c == "]" and not first:
                self.i += 1
                break
            first = False
            if c == "[":
                raise RegexSyntax("nested class")
            lo = self.escape() if c == "\\" else self._take()
            if self.peek() == "-" and self.i + 1 < len(self.s) and self.s[self.i + 1] != "]":
                self.i += 1
                c2 = self.peek()
                hi = self.escape() if c2 == "\\" else self._take()
            else:
                hi = lo
            if hi < lo:
                raise RegexSyntax("bad range")
            rs.append((lo, hi))
        rs = norm_ranges(rs)
        if neg:
            rs = complement(rs)
        # surrogates are not scalar values: no &str contains them
        rs = subtract(rs, [(0xD800, 0xDFFF)])
        return ("lit", rs)

    def _take(self):
        c = self.s[self.i]
        self.i += 1
        return ord(c)


def norm_ranges(rs):
    rs = sorted(rs)
    out = []
    for lo, hi in rs:
        if out and lo <= out[-1][1] + 1:
            out[-1] = (out[-1][0], max(out[-1][1], hi))
        else:
            out.append((lo, hi))
    return out


def complement(rs):
    out = []
    prev = 0
    for lo, hi in norm_ranges(rs):
        if lo > prev:
            out.append((prev, lo - 1))
        prev = hi + 1
    if prev <= MAXCP:
        out.append((prev, MAXCP))
    # surrogates are not scalar values
    return subtract(out, [(0xD800, 0xDFFF)])


def subtract(a, b):
    out = []
    for lo, hi in a:
        cur = lo
        for blo, bhi in b:
            if bhi < cur or blo > hi:
                continue
            if blo > cur:
                out.append((cur, blo - 1))
            cur = max(cur, bhi + 1)
        if cur <= hi:
            out.append((cur, hi))
    return out


# ---------------------------------------------------------------- AST properties

def min_len(n):
    k = n[0]
    if k == "lit":
        return 1
    if k == "empty":
        return 0
    if k == "cat":
        return sum(min_len(x) for x in n[1])
    if k == "alt":
        return min(min_len(x) for x in n[1])
    if k in ("star", "opt"):
        return 0
    if k == "plus":
        return min_len(n[1])
    raise RegexSyntax(k)


def literal_prefix(n):
    """longest fixed string every word starts with (list of code points)"""
    k = n[0]
    if k == "lit":
        if len(n[1]) == 1 and n[1][0][0] == n[1][0][1]:
            return [n[1][0][0]], True   # (prefix, whole node is exactly this literal)
        return [], False
    if k == "cat":
        out = []
        for x in n[1]:
            p, exact = literal_prefix(x)
            out += p
            if not exact:
                return out, False
        return out, True
    if k == "empty":
        return [], True
    return [], False


def literal_suffix(n):
    k = n[0]
    if k == "lit":
        if len(n[1]) == 1 and n[1][0][0] == n[1][0][1]:
            return [n[1][0][0]], True
        return [], False
    if k == "cat":
        out = []
        for x in reversed(n[1]):
            p, exact = literal_suffix(x)
            out = p + out
            if not exact:
                return out, False
        return out, True
    if k == "empty":
        return [], True
    return [], False


# ---------------------------------------------------------------- NFA

class NFA:
    def __init__(self):
        self.eps = []      # state -> list of states
        self.tr = []       # state -> list of ((lo,hi), target)
        self.accept = {}   # state -> pattern id

    def new(self):
        self.eps.append([])
        self.tr.append([])
        return len(self.eps) - 1

    def build(self, n):
        """-> (start, end) fragment"""
        k = n[0]
        s, e = self.new(), self.new()
        if k == "lit":
            for r in n[1]:
                self.tr[s].append((r, e))
        elif k == "empty":
            self.eps[s].append(e)
        elif k == "cat":
            cur = s
            for x in n[1]:
                a, b = self.build(x)
                self.eps[cur].append(a)
                cur = b
            self.eps[cur].append(e)
        elif k == "alt":
            for x in n[1]:
                a, b = self.build(x)
                self.eps[s].append(a)
                self.eps[b].append(e)
        elif k in ("star", "plus", "opt"):
            a, b = self.build(n[1])
            self.eps[s].append(a)
            self.eps[b].append(e)
            if k in ("star", "opt"):
                self.eps[s].append(e)
            if k in ("star", "plus"):
                self.eps[b].append(a)
        else:
            raise RegexSyntax(k)
        return s, e

    def closure(self, states):
        seen = set(states)
        todo = list(states)
        while todo:
            x = todo.pop()
            for y in self.eps[x]:
                if y not in seen:
                    seen.add(y)
                    todo.append(y)
        return frozenset(seen)


class MultiDFA:
    """deterministic automaton of several patterns at once; accepting info = set of pattern ids"""

    def __init__(self, asts):
        self.nfa = NFA()
        starts = []
        for pid, ast in enumerate(asts):
            a, b = self.nfa.build(ast)
            self.nfa.accept[b] = pid
            starts.append(a)
        # alphabet partition
        pts = set([0, MAXCP + 1])
        for trs in self.nfa.tr:
            for (lo, hi), _ in trs:
                pts.add(lo)
                pts.add(hi + 1)
        pts = sorted(pts)
        self.classes = [(pts[i], pts[i + 1] - 1) for i in range(len(pts) - 1)]
        self.start = self.nfa.closure(starts)
        self.states = {self.start: 0}
        self.order = [self.start]
        self.delta = []   # state idx -> {class idx: state idx}
        i = 0
        while i < len(self.order):
            S = self.order[i]
            row = {}
            moves = {}
            for x in S:
                for (lo, hi), t in self.nfa.tr[x]:
                    for ci, (clo, chi) in enumerate(self.classes):
                        if clo >= lo and chi <= hi:
                            moves.setdefault(ci, set()).add(t)
            for ci, ts in moves.items():
                T = self.nfa.closure(ts)
                if T not in self.states:
                    self.states[T] = len(self.order)
                    self.order.append(T)
                row[ci] = self.states[T]
            self.delta.append(row)
            i += 1
        self.acc = [frozenset(self.nfa.accept[x] for x in S if x in self.nfa.accept) for S in self.order]
        # liveness: can reach an accepting state
        n = len(self.order)
        rev = [[] for _ in range(n)]
        for a, row in enumerate(self.delta):
            for b in row.values():
                rev[b].append(a)
        live = set(i for i in range(n) if self.acc[i])
        todo = list(live)
        while todo:
            x = todo.pop()
            for y in rev[x]:
                if y not in live:
                    live.add(y)
                    todo.append(y)
        self.live = live

    def cls_of(self, cp):
        lo, hi = 0, len(self.classes) - 1
        while lo <= hi:
            mid = (lo + hi) // 2
            a, b = self.classes[mid]
            if cp < a:
                hi = mid - 1
            elif cp > b:
                lo = mid + 1
            else:
                return mid
        return None

    def run(self, text):
        """state after reading text (None = dead)"""
        s = 0
        for ch in text:
            ci = self.cls_of(ord(ch))
            s = self.delta[s].get(ci)
            if s is None:
                return None
        return s

    def example(self, target_pred):
        """shortest word reaching a state satisfying the predicate (BFS), as a str"""
        from collections import deque
        prev = {0: None}
        dq = deque([0])
        while dq:
            x = dq.popleft()
            if target_pred(x):
                w = []
                while prev[x] is not None:
                    x, ci = prev[x]
                    w.append(self.sample_char(ci))
                return "".join(reversed(w))
            for ci, y in sorted(self.delta[x].items()):
                if y not in prev:
                    prev[y] = (x, ci)
                    dq.append(y)
        return None

    def sample_char(self, ci):
        lo, hi = self.classes[ci]
        for cand in (ord("a"), ord("0"), ord("_"), ord(" "), lo):
            if lo <= cand <= hi:
                return chr(cand)
        return chr(lo)


def included(a_ast, b_ast):
    """(L(a) subset of L(b) ?, counterexample word or None)"""
    m = MultiDFA([a_ast, b_ast])
    w = m.example(lambda s: 0 in m.acc[s] and 1 not in m.acc[s])
    return (w is None), w


def equivalent(a_ast, b_ast):
    ok1, w1 = included(a_ast, b_ast)
    ok2, w2 = included(b_ast, a_ast)
    return ok1 and ok2, (w1 if not ok1 else w2)


def intersects(a_ast, b_ast):
    m = MultiDFA([a_ast, b_ast])
    return m.example(lambda s: 0 in m.acc[s] and 1 in m.acc[s])


class Lexer:
    """the table as lalrpop_util::lexer interprets it"""

    def __init__(self, table):
        self.table = table                    # list of (regex string, skip)
        self.asts = [parse(rx) for rx, _ in table]
        self.dfa = MultiDFA(self.asts)

    def tokenize(self, text):
        """-> list of (pattern index, lexeme) or raises ValueError at an invalid token (mirrors the runtime)"""
        out = []
        pos = 0
        while pos < len(text):
            s = 0
            best = None
            if self.dfa.acc[0]:
                best = (0, max(self.dfa.acc[0]))
            for k in range(pos, len(text)):
                ci = self.dfa.cls_of(ord(text[k]))
                s = self.dfa.delta[s].get(ci)
                if s is None:
                    break
                if self.dfa.acc[s]:
                    best = (k + 1 - pos, max(self.dfa.acc[s]))
            if best is None:
                raise ValueError("invalid token at %d" % pos)
            ln, idx = best
            if self.table[idx][1]:
                if ln == 0:
                    raise ValueError("invalid token at %d" % pos)
            else:
                out.append((idx, text[pos:pos + ln]))
            pos += ln
        return out
