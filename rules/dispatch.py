"""Compare the evaluator's per-node-kind paths (optable.compute) with spec/evalorder.py."""
import evalorder
from norm import short_callee

TAGS = evalorder.VALUE_TAGS


import re as _re

_ITER_SPELLING = _re.compile(r"into_iter\((?:\[\w+\]|BTreeMap|Vec|HashMap)::iter\(")
_BARE_ITER = _re.compile(r"(?<!into_iter\()(?:\[\w+\]|BTreeMap|Vec|HashMap)::iter\(")
_FRESH = _re.compile(r"^(Vec::new\(\)|BTreeMap::new\(\)|Vec::with_capacity\(.*\))$")


def _plain_iter(x):
    """`for x in c.iter()` and `for x in &c` are the same forward iteration"""
    if not isinstance(x, str):
        return x
    x = _BARE_ITER.sub("into_iter(", x)
    while True:
        m = _ITER_SPELLING.search(x)
        if not m:
            return x
        # drop the inner `X::iter(` and its matching ')'
        start = m.start() + len("into_iter(")
        inner_open = m.end() - 1
        depth = 0
        j = inner_open
        while j < len(x):
            if x[j] == "(":
                depth += 1
            elif x[j] == ")":
                depth -= 1
                if depth == 0:
                    break
            j += 1
        x = x[:start] + x[inner_open + 1:j] + x[j + 1:]


_VALUES = _re.compile(r"BTreeMap::values\(([\w.]+)\)")
_ZIPPED = _re.compile(r"^Ok\(Map\(\w+::collect\(\w+::zip\(Keys::cloned\(BTreeMap::keys\(([\w.]+)\)\), (.*)\)\)\)\)$")


def _values_then_zip(p):
    """a map evaluated as `values()` in order and zipped back with `keys()` (std: both iterate in key order) is the map
    evaluated entry by entry: the k-th value is the value of the k-th entry, the result its key paired with it"""
    txt = str(p["events"]) + str(p["conds"]) + str(p["ret"])
    m = _VALUES.search(txt)
    if not m:
        return p
    X = m.group(1)
    src, ent = "BTreeMap::values(%s)" % X, "into_iter(%s)" % X

    def fix(x):
        if isinstance(x, str):
            x = _re.sub(r"elem(\d+)\(%s\)" % _re.escape(src), lambda k: "elem%s(%s).1" % (k.group(1), ent), x)
            return x.replace(src, ent)
        if isinstance(x, tuple):
            return tuple(fix(y) for y in x)
        return x
    events = [fix(e) for e in p["events"]]
    ret = fix(p["ret"])
    mz = _ZIPPED.match(ret)
    if ret.startswith("Err(") and "zip" not in str(events):
        # a path that fails before the zip: the values collected so far are the entries' values all the same
        k = 0
        new_events = []
        coll = "BTreeMap::new()"
        for e in events:
            if e[0] == "call" and e[1] == "Vec::push" and len(e) == 4:
                key_k = "elem%d(%s).0" % (k, ent)
                new_events.append(("call", "BTreeMap::insert", coll, key_k, e[3]))
                coll = "insert(%s, %s, %s)" % (coll, key_k, e[3])
                k += 1
            elif e[0] == "call" and e[1] in ("Vec::new", "Vec::with_capacity"):
                new_events.append(("call", "BTreeMap::new"))
            else:
                new_events.append(e)
        events = new_events
    if mz and mz.group(1) == X:
        # the vector of values (pushes in order) paired with the keys in order -> inserts of (key_k, value_k)
        vals = mz.group(2)
        k = 0
        new_events = []
        coll = "BTreeMap::new()"
        for e in events:
            if e[0] == "call" and e[1] == "Vec::push" and len(e) == 4:
                key_k = "elem%d(%s).0" % (k, ent)
                new_events.append(("call", "BTreeMap::insert", coll, key_k, e[3]))
                coll = "insert(%s, %s, %s)" % (coll, key_k, e[3])
                k += 1
            elif e[0] == "call" and e[1] in ("Vec::new", "Vec::with_capacity"):
                new_events.append(("call", "BTreeMap::new"))
            else:
                new_events.append(e)
        if vals.count("push(") == k or (k == 0 and _FRESH.match(vals)):
            events = new_events
            ret = "Ok(Map(%s))" % coll
    return dict(p, events=tuple(events), conds=tuple((fix(a), b) for a, b in p["conds"]), ret=ret)


def canon_path(p, opfns):
    """-> list of canonical (conds, events, ret) (a path may expand into several)"""
    p = dict(p, events=tuple(tuple(_plain_iter(y) for y in e) for e in p["events"]),
             conds=tuple((_plain_iter(a), b) for a, b in p["conds"]), ret=_plain_iter(p["ret"]))
    p = _values_then_zip(p)
    events = []
    op_term = None
    ctx_term = None
    coll = None
    for e in p["events"]:
        k = e[0]
        if k == "eval":
            events.append(("eval", e[1]))
        elif k == "op":
            # the operands proper: evaluated sub-expressions and the node's own fields (a mode selector or a function
            # item handed to a shared helper is not an operand)
            events.append(("op",) + tuple(a for a in e[2:] if "ev(" in a or "self." in a))
            op_term = "%s(%s)" % (short_callee(e[1]), ", ".join(e[2:]))
        elif k == "call":
            name = e[1]
            if name.startswith("EvalContext::"):
                events.append(("ctx", name.split("::", 1)[1]) + tuple(e[3:]))
                ctx_term = "%s(%s)" % (name, ", ".join(e[2:]))
            elif name == "Vec::push" and len(e) == 4:
                events.append(("push", e[3]))
                coll = "push(%s, %s)" % (e[2], e[3])
            elif name == "BTreeMap::insert" and len(e) == 5:
                events.append(("insert", e[3], e[4]))
                coll = "insert(%s, %s, %s)" % (e[2], e[3], e[4])
            elif name in ("Vec::new", "BTreeMap::new", "Vec::with_capacity"):
                coll = coll or "%s(%s)" % (name, ", ".join(e[2:]))
            elif name.endswith("::iter") and len(e) == 3:
                pass   # `.iter()` before a for loop: same iteration as `&collection`
            elif any(("ctx" == a or a.startswith("ctx") or "self." in a or "ev(" in a) for a in e[2:]) and not pure_helper(name):
                events.append(("call", name) + tuple(e[2:]))
        elif k in ("next", "end"):
            events.append(e)
    ret = p["ret"]
    if op_term and ret == op_term:
        ret = "OP"
    elif op_term and ret.startswith(op_term.split("(", 1)[0] + "(") and ret.endswith(")"):
        # the operator's result with the operands in the function's own parameter order (canonical order differs
        # when the step comes first, as in `step.lookup(value)`)
        def top_args(t):
            inner = t[t.index("(") + 1:-1]
            out, depth, cur = [], 0, ""
            for ch in inner:
                if ch in "([":
                    depth += 1
                elif ch in ")]":
                    depth -= 1
                if ch == "," and depth == 0:
                    out.append(cur.strip())
                    cur = ""
                else:
                    cur += ch
            if cur.strip():
                out.append(cur.strip())
            return out
        if sorted(top_args(ret)) == sorted(top_args(op_term)):
            ret = "OP"
    if ctx_term:
        if ret == ctx_term:
            ret = "CTX"
        elif ret == "await(%s)" % ctx_term:
            ret = "await(CTX)"
    if coll:
        base = coll
        while base.startswith(("push(", "insert(")):
            base = base[base.index("(") + 1:]
            # first argument up to the top-level comma
            depth = 0
            for k_, ch in enumerate(base):
                if ch == "(":
                    depth += 1
                elif ch == ")":
                    depth -= 1
                elif ch == "," and depth == 0:
                    base = base[:k_]
                    break
        for form in ("Ok(Value::from<Vec>(%s))", "Ok(Vec(%s))", "Ok(Value::from<BTreeMap>(%s))", "Ok(Map(%s))"):
            if ret == form % coll and _FRESH.match(base):
                ret = "Ok(COLLECTION)"
    # conditions
    variants = [[]]
    for subj, rel in p["conds"]:
        mb = _re.fullmatch(r"Eq\((True|False), (.*\.Bool\.0)\)|Eq\((.*\.Bool\.0), (True|False)\)", subj)
        if mb and rel in ("val 0", "val not:0"):
            # `b == CONST` as a condition is a condition on b itself
            const = (mb.group(1) or mb.group(4)) == "True"
            b_ = mb.group(2) or mb.group(3)
            holds = rel == "val not:0"
            c = [(b_, "true" if (const == holds) else "false")]
        elif subj.endswith(".Bool.0") and rel in ("val 0", "val not:0"):
            c = [(subj, "false" if rel == "val 0" else "true")]
        elif _re.fullmatch(r"Not\((.*\.Bool\.0)\)", subj) and rel in ("val 0", "val not:0"):
            # `!b` (also the normal form of `b == false`) as a condition is a condition on b
            c = [(subj[4:-1], "true" if rel == "val 0" else "false")]
        elif subj.startswith("Value::eq(") and subj.endswith(", None)") and rel in ("val 0", "val not:0"):
            a = subj[len("Value::eq("):-len(", None)")]
            if rel == "val not:0":
                c = [(a, "is None")]
            else:
                c = [("__expand__", a)]
        else:
            c = [(subj, rel)]
        variants = [v + c for v in variants]
    out = []
    for v in variants:
        exp = [x for x in v if x[0] == "__expand__"]
        rest = [x for x in v if x[0] != "__expand__"]
        if exp:
            a = exp[0][1]
            for t in TAGS:
                if t != "None":
                    out.append((frozenset(rest + [(a, "is " + t)]), tuple(events), ret))
        else:
            out.append((frozenset(rest), tuple(events), ret))
    # a boolean whose payload the path has decided, returned as it is, is that constant
    fixed = []
    for conds_, events_, ret_ in out:
        m_ = _re.fullmatch(r"Ok\((ev\(.*\)\.Ok\.0)\)", ret_)
        if m_:
            d_ = dict(conds_)
            pay = d_.get(m_.group(1) + ".Bool.0")
            if pay in ("true", "false") and d_.get(m_.group(1)) == "is Bool":
                ret_ = "Ok(Bool(%s))" % ("True" if pay == "true" else "False")
        fixed.append((conds_, events_, ret_))
    return fixed


PURE = ("Value::eq", "Value::from", "Value::clone", "bool::try_from", "Value::try_into", "String::clone", "Vec::new", "BTreeMap::new",
        # std observers without effect on what is evaluated or in which order
        "Vec::len", "Vec::is_empty", "BTreeMap::len", "BTreeMap::is_empty", "[T]::len", "[T]::is_empty",
        "Vec::with_capacity", "Vec::reserve", "String::len", "str::len")


def pure_helper(name):
    return any(name.startswith(p) for p in PURE)


LAZY_BOOL = ("If", "And", "Or")


def path_class(kind, path):
    """which property owns a path of if/and/or: 'bool' (C05: laziness and order), 'other' (C03: a non-boolean,
    non-None condition operand), 'none' (C04: a None condition operand).  Every other node kind: 'bool'."""
    if kind not in LAZY_BOOL:
        return "bool"
    conds = path[0]
    for i in (0, 1):
        subj = evalorder.okv(evalorder.child(kind, i))
        for s, rel in conds:
            if s == subj and rel.startswith("is "):
                t = rel[3:]
                if t == "None":
                    return "none"
                if t != "Bool":
                    return "other"
    return "bool"


def tags_only(kind, path):
    """(operand-tag conditions, result) of a path: what C03/C04 say about if/and/or, without the event order"""
    conds, events, ret = path
    subjects = [evalorder.okv(evalorder.child(kind, i)) for i in (0, 1)]
    keep = frozenset(c for c in conds if c[0] in subjects and c[1].startswith("is "))
    return (keep, (), ret)


def strip_op_args(path):
    """the order view of a path (C05): which sub-expressions are evaluated, in which order, and when the
    operator / the context is reached — not which arguments those receive (C02/C10/C11), nor calls that
    cannot evaluate anything because they do not get the context"""
    conds, events, ret = path
    out = []
    for e in events:
        if e[0] == "op":
            out.append(("op",))
        elif e[0] == "ctx":
            out.append(("ctx", e[1]))
        elif e[0] == "call" and not any(a == "ctx" or a.startswith("ctx") for a in e[2:]):
            continue
        else:
            out.append(e)
    return (conds, tuple(out), ret)


LAZY_KINDS = ("If", "And", "Or", "Equals", "NotEquals")
_CHILD = _re.compile(r"^ev\(self\.\w+\.\d+\)$")


def order_projection(path):
    conds, events, ret = path
    conds = frozenset(c for c in conds if (_CHILD.match(c[0]) and c[1] in ("is Ok", "is Err")) or c[0].startswith("next("))
    events = tuple(e for e in events if e[0] != "op")
    if not (ret.startswith("Err(ev(") and ret.endswith(".Err.0)")):
        ret = "RESULT"
    return (conds, events, ret)


def compare_rows(table, classes=("bool", "other", "none"), ignore_op_wiring=False, kinds=None, tags_result_only=False):
    """-> (mismatches, stats).  mismatch = {kind, missing:[...], unexpected:[...]}"""
    mismatches = []
    npaths = 0
    for kind in (kinds or evalorder.ALL_KINDS):
        if kind not in table["rows"]:
            mismatches.append({"kind": kind, "missing": ["<node kind not found in evaluator>"], "unexpected": []})
            continue
        actual = set()
        for p in table["rows"][kind]:
            for c in canon_path(p, table["opfns"]):
                actual.add(c)
        exp = set(evalorder.expected(kind, table.get("loop_bound")))
        actual = set(x for x in actual if path_class(kind, x) in classes)
        exp = set(x for x in exp if path_class(kind, x) in classes)
        if tags_result_only:
            actual = set(tags_only(kind, x) for x in actual)
            exp = set(tags_only(kind, x) for x in exp)
        if ignore_op_wiring:
            actual = set(strip_op_args(x) for x in actual)
            exp = set(strip_op_args(x) for x in exp)
            if kind not in LAZY_KINDS and kind in table.get("cells_by_kind", {}):
                # a strict operator node: what matters for the order is which sub-expressions are evaluated, in which
                # order, and that the first failure ends the evaluation — not on which operand tags the operator code
                # branches afterwards, nor whether a helper answers before the operator function is reached
                actual = set(order_projection(x) for x in actual)
                exp = set(order_projection(x) for x in exp)
        npaths += len(actual)
        if actual != exp:
            mismatches.append({
                "kind": kind,
                "missing": [fmt(x) for x in sorted(exp - actual, key=repr)],
                "unexpected": [fmt(x) for x in sorted(actual - exp, key=repr)],
            })
    extra = sorted(set(table["rows"]) - set(evalorder.ALL_KINDS)) if kinds is None else []
    for kind in extra:
        mismatches.append({"kind": kind, "missing": [], "unexpected": ["node kind without a specification row"]})
    return mismatches, {"kinds": len(table["rows"]), "paths": npaths}


def fmt(path):
    conds, events, ret = path
    return {"when": sorted("%s %s" % c for c in conds), "events": [" ".join(str(x) for x in e) for e in events], "result": ret}
