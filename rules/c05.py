"""C05 — conditionals and logic evaluate lazily; everything else once, left to right.

Decided from the evaluator's pre-transform coroutine MIR: every path through every node kind's arm
(all 47), with the awaited sub-evaluations as ordered events, is compared with the specification in
spec/evalorder.py."""
import dispatch
import optable
from framework import Inconclusive

LEVEL = "other"


def run(res, f, tier):
    unroll = 3 if tier == "thorough" else 2
    t = optable.compute(f, loop_bound=unroll)
    if not t:
        raise Inconclusive("recursive evaluator not found from Expr::evaluate")
    res.floor("node kinds dispatched by the evaluator", len(t["rows"]), 47)
    mm, st = dispatch.compare_rows(t, classes=("bool",), ignore_op_wiring=True)
    res.floor("evaluator paths enumerated", st["paths"], 100)
    for m in mm:
        res.violation("C05|order|%s" % m["kind"],
                      "evaluation order / laziness of node kind %s differs from the specification" % m["kind"],
                      {"evaluator": t["coroutine"], "missing_paths": m["missing"][:6], "unexpected_paths": m["unexpected"][:6]})
    samples = []
    for kind in ("If", "And", "Equals", "Add", "Vec"):
        for p in t["rows"].get(kind, [])[:2]:
            samples.append({"node": kind, "when": ["%s %s" % c for c in p["conds"]],
                            "events": [" ".join(str(x) for x in e) for e in p["events"] if e[0] in ("eval", "op", "next", "end")],
                            "result": p["ret"]})
    import rewrite
    rw_cov = rewrite.apply(res, f, "C05")
    # "a sub-expression that is reached invokes its user function": below the evaluator the call goes through the
    # function table, which may skip the invocation only for a function that declares itself cacheable.  Those rules
    # are C11's; the verdict on them is imported.
    import c11
    from framework import Result
    r11 = Result("C11", "other")
    try:
        c11.run(r11, f, tier)
        skipped = [v for v in r11.violations if v["key"] in ("C11|bypass", "C11|asks-cacheable", "C11|right-function")]
        for v in skipped[:1]:
            res.violation("C05|call-invoked", "a reached call of a user function is not always an invocation of that function: %s" % [x["what"][:120] for x in skipped],
                          {"c11_findings": [x["key"] for x in skipped]})
    except Inconclusive as e:
        res.floor_failures.append("imported invocation verdict (C11) unavailable: %s" % e)
    res.coverage = {
        "tree_rewrites": rw_cov,
        "explanation": "All acyclic paths of the recursive evaluator's coroutine body (MIR before the state-machine transform; "
                       "await loops collapsed; for-loops unrolled %d times) were enumerated by tag-symbolic abstract interpretation for each "
                       "of the %d node kinds, with operator functions opaque; the ordered evaluator invocations, operator/context calls, "
                       "conditions and result of every path were compared with the path set spec/evalorder.py prescribes." % (unroll, len(t["rows"])),
        "evaluator": t["coroutine"],
        "node_kinds": len(t["rows"]),
        "paths": st["paths"],
        "mismatching_node_kinds": len(mm),
        "rule": "set of (conditions, ordered events, result) per node kind == specification",
        "samples": samples,
        "exhaustive": True,
    }
    res.assumptions = [
        "rustc's MIR construction implements Rust's evaluation order",
        "an evaluator future is awaited immediately after creation (the recogniser treats poll as yielding the future's output; a second, un-awaited future would appear as an extra event)",
        "loops are unrolled twice: order/pairing defects that need three or more iterations to differ are not distinguished",
    ]
