"""C05 — conditionals and logic evaluate lazily; everything else once, left to right.

Decided from the evaluator's pre-transform coroutine MIR: every path through every node kind's arm
(all 47), with the awaited sub-evaluations as ordered events, is compared with the specification in
spec/evalorder.py."""
import dispatch
import optable
from framework import Inconclusive

LEVEL = "other"


def run(res, f, tier):
    unroll = 3 if tier == "thorough" else 2
    t = optable.compute(f, loop_bound=unroll)
    if not t:
        raise Inconclusive("recursive evaluator not found from Expr::evaluate")
    res.floor("node kinds dispatched by the evaluator", len(t["rows"]), 47)
    mm, st = dispatch.compare_rows(t, classes=("bool",), ignore_op_wiring=True)
    res.floor("evaluator paths enumerated", st["paths"], 100)
    for m in mm:
        res.violation("C05|order|%s" % m["kind"],
                      "evaluation order / laziness of node kind %s differs from the specification" % m["kind"],
                      {"evaluator": t["coroutine"], "missing_paths": m["missing"][:6], "unexpected_paths": m["unexpected"][:6]})
    samples = []
    for kind in ("If", "And", "Equals", "Add", "Vec"):
        for p in t["rows"].get(kind, [])[:2]:
            samples.append({"node": kind, "when": ["%s %s" % c for c in p["conds"]],
                            "events": [" ".join(str(x) for x in e) for e in p["events"] if e[0] in ("eval", "op", "next", "end")],
                            "result": p["ret"]})
    import rewrite
    rw_cov = rewrite.apply(res, f, "C05")
    # the way into the evaluator adds nothing: Expr::evaluate and the per-rule entry hand the whole expression to the
    # evaluator once and return what it returns — a pass over the tree before (or after) evaluation could raise an
    # error for, or look at, a sub-expression that evaluation never reaches
    import anchors
    import evalsum
    from norm import norm, norm_cond, show, short_callee
    try:
        A = anchors.resolve(f)
        ev_fn = A["evaluator"][0]
        EV = short_callee(ev_fn)
        # the entries: Expr::evaluate, and whatever method of Expr (other than the evaluator and what the evaluator itself
        # calls) the ruleset evaluation goes through on its way to the evaluator
        ev_value = evalsum.find_by_name(f, "evaluate_value", "ruleset::RuleSet")
        below_evaluator = set(evalsum.reachable_local(f, [ev_fn]))
        from_ruleset = set(evalsum.reachable_local(f, ev_value)) if ev_value else set()
        entries = [A["expr_eval"]] + sorted(d for d, b in f.bodies.items() if not b.get("parent") and b["kind"] == "AssocFn"
                                            and (b.get("impl") or {}).get("self_s") == evalsum.EXPR and d in from_ruleset and d not in below_evaluator
                                            and d != A["expr_eval"] and ev_fn in evalsum.reachable_local(f, [d]))
        for E in entries:
            b_ = f.bodies[E]
            names = [b_["locals"][i].get("name") or "a%d" % i for i in range(1, b_["arg_count"] + 1)]
            from tss import PathLimit, Unsupported
            try:
                paths, it_ = evalsum.run_async_fn(f, E, names, opaque=lambda p_: p_ == ev_fn)
            except PathLimit as e_:
                res.violation("C05|entry|%s" % short_callee(E),
                              "%s does more than hand the expression to the evaluator: its paths could not be enumerated within bounds (%s walks the tree or "
                              "branches on its shape before evaluation)" % (short_callee(E), e_), {"limit": str(e_)})
                continue
            except Unsupported as e_:
                res.floor_failures.append("entry %s not summarised: %s" % (short_callee(E), e_))
                continue
            bad = []
            for s_, rv_ in paths:
                calls = [e for e in s_.events if e[0] == "call" and short_callee(e[1]) == EV]
                ret = show(norm(it_.resolve(s_, rv_)))
                conds = [norm_cond(c) for c in s_.conds]
                ok = len(calls) == 1 and ret.startswith("await(%s(" % EV) and any(show(norm(a_)) in ("self", names[0]) for a_ in calls[0][2]) and not conds
                if not ok:
                    bad.append({"when": ["%s %s" % c for c in conds][:4], "evaluator_calls": len(calls), "result": ret[:200]})
            if bad:
                res.violation("C05|entry|%s" % short_callee(E),
                              "%s must hand the whole expression to the evaluator exactly once and return its result unchanged (no pass over the tree "
                              "before or after, no other way to fail): %s" % (short_callee(E), bad[:2]), {"paths": bad[:6]})
    except Inconclusive as e:
        res.floor_failures.append("entry points of the evaluator not located: %s" % e)
    # "a sub-expression that is reached invokes its user function": below the evaluator the call goes through the
    # function table, which may skip the invocation only for a function that declares itself cacheable.  Those rules
    # are C11's; the verdict on them is imported.
    import c11
    from framework import Result
    r11 = Result("C11", "other")
    try:
        c11.run(r11, f, tier)
        skipped = [v for v in r11.violations if v["key"] in ("C11|bypass", "C11|asks-cacheable", "C11|right-function")]
        for v in skipped[:1]:
            res.violation("C05|call-invoked", "a reached call of a user function is not always an invocation of that function: %s" % [x["what"][:120] for x in skipped],
                          {"c11_findings": [x["key"] for x in skipped]})
    except Inconclusive as e:
        res.floor_failures.append("imported invocation verdict (C11) unavailable: %s" % e)
    res.coverage = {
        "tree_rewrites": rw_cov,
        "explanation": "All acyclic paths of the recursive evaluator's coroutine body (MIR before the state-machine transform; "
                       "await loops collapsed; for-loops unrolled %d times) were enumerated by tag-symbolic abstract interpretation for each "
                       "of the %d node kinds, with operator functions opaque; the ordered evaluator invocations, operator/context calls, "
                       "conditions and result of every path were compared with the path set spec/evalorder.py prescribes." % (unroll, len(t["rows"])),
        "evaluator": t["coroutine"],
        "node_kinds": len(t["rows"]),
        "paths": st["paths"],
        "mismatching_node_kinds": len(mm),
        "rule": "set of (conditions, ordered events, result) per node kind == specification",
        "samples": samples,
        "exhaustive": True,
    }
    res.assumptions = [
        "rustc's MIR construction implements Rust's evaluation order",
        "an evaluator future is awaited immediately after creation (the recogniser treats poll as yielding the future's output; a second, un-awaited future would appear as an extra event)",
        "loops are unrolled twice: order/pairing defects that need three or more iterations to differ are not distinguished",
    ]
