"""C13 — serialising input data into a Value is total and faithful (structural part).

Decided: no panic / lossy cast site in the serializer; every Serializer / collector method builds
the prescribed Value for its serde kind (per-kind mapping below, written from the property text).
NOT decided: coincidence with serde_json's image (another crate's behaviour)."""
import re

import evalsum
import hazards
from framework import Inconclusive
from norm import norm, norm_cond, short_callee, show
from tss import Interp, State

LEVEL = "other"
LABEL = re.compile(r"'[^']*'")

# allow-listed hazard: reached only by a Serialize impl that violates serde's map protocol
# (serialize_value before serialize_key); serde_json behaves the same way.
ALLOWED_HAZARDS = {
    "C13|<value::ser::SerializeMapValue as serde::ser::SerializeMap>::serialize_value|call:Option::expect#0":
        "map protocol violation by the caller's Serialize impl, not a serde-serialisable value",
}

SER = "T::serialize(value, self)"
SERV = "T::serialize(value, ValueSerializer)"
OKV = "T::serialize!(value, ValueSerializer)"
ERRV = "Err(T::serialize!err(value, ValueSerializer))"


def widen(t):
    return ["Ok(Int(cast:IntToInt:%s->i128(value)))" % t, "Ok(Int(i128::from<%s>(value)))" % t]


EMPTY_VEC = ["Vec::with_capacity(0)", "Vec::with_capacity(len)", "Vec::with_capacity(len.Some.0)", "Vec::new()"]

# (trait, method) -> list of acceptable outcome sets; an outcome = (conds, result, final self or None)
VALUE_SERIALIZER = {
    "serialize_bool": [[((), "Ok(Bool(value))")]],
    "serialize_i128": [[((), "Ok(Int(value))")]],
    "serialize_u128": [[((("i128::try_from<u128>(value)", "fails"),), "Err(NumericOverflow(i128::try_from<u128>!err(value)))"),
                        ((("i128::try_from<u128>(value)", "ok"),), "Ok(Int(i128::try_from<u128>!(value)))")]],
    "serialize_f32": [[((), "Ok(Float(cast:FloatToFloat:f32->f64(value)))")], [((), "Ok(Float(f64::from<f32>(value)))")]],
    "serialize_f64": [[((), "Ok(Float(value))")]],
    "serialize_char": [[((), "Ok(String(char::to_string(value)))")]],
    "serialize_str": [[((), "Ok(String(value))")]],
    "serialize_none": [[((), "Ok(None)")]],
    "serialize_unit": [[((), "Ok(None)")]],
    "serialize_unit_struct": [[((), "Ok(None)")]],
    "serialize_some": [[((), SER)]],
    "serialize_newtype_struct": [[((), SER)]],
    "serialize_unit_variant": [[((), "Ok(String(variant))")]],
    "serialize_newtype_variant": [[(((SER, "fails"),), "Err(T::serialize!err(value, self))"),
                                   (((SER, "ok"),), "Ok(Map(insert(BTreeMap::new(), variant, T::serialize!(value, self))))")]],
    "serialize_map": [[((), "Ok(SerializeMapValue(BTreeMap::new(), Option::None))")]],
    "serialize_struct": [[((), "Ok(SerializeMapValue(BTreeMap::new(), Option::None))")]],
    "serialize_struct_variant": [[((), "Ok(SerializeStructVariantValue(variant, BTreeMap::new()))")]],
}
for _t in ("i8", "i16", "i32", "i64", "u8", "u16", "u32", "u64"):
    VALUE_SERIALIZER["serialize_" + _t] = [[((), w)] for w in widen(_t)]


def fresh_vec_ok(template, outs):
    """outcome sets whose result is `template % <an empty vector>` (any capacity hint)"""
    for conds, r in outs:
        if not any(r == template % e for e in EMPTY_VEC):
            return False
    return bool(outs)


# ---- the state of a collector by role -----------------------------------------------------------------------------
# What a collector remembers is a collection of values, for the variant forms a name, for maps the pending key.  How the
# struct lays these out is private: `{ name, vec }` today; a shared generic `Frame<B, E> { body: B, envelope: E }` inside
# every collector is the same state.  The summaries are brought to the layout the rules are written in — leaves in the
# order (name, collection, pending key), unit leaves dropped — whenever a collector's own layout differs from it.
ROLE_ORDER = {"name": 0, "coll": 1, "key": 2}
ROLE_OF_TYPE = {"std::vec::Vec<value::Value>": "coll", "std::collections::BTreeMap<std::string::String, value::Value>": "coll",
                "std::string::String": "name", "std::option::Option<std::string::String>": "key", "()": "unit"}


def collector_layout(f, adt_path, serde_selfs):
    """[(path of field indices, role)] of the leaves of a collector, carriers (crate-private plain structs, generic or
    not) flattened; None when a leaf has no role (the layout is then left as it is)"""
    def walk(tid, adt_path, args, depth):
        a = f.adts.get(adt_path)
        if not a or a["kind"] != "struct" or depth > 3:
            return None
        gen = a.get("generics") or []
        out = []
        for i, fl in enumerate(a["variants"][0]["fields"]):
            t = fl.get("ty")
            if t is None:
                return None
            tt = f.ty(t)
            if tt.get("k") == "param":
                if tt["s"] not in gen or gen.index(tt["s"]) >= len(args):
                    return None
                t = args[gen.index(tt["s"])]
                tt = f.ty(t)
            ts = re.sub(r"'\w+ ", "", tt["s"])
            if ts in ROLE_OF_TYPE:
                out.append(((i,), ROLE_OF_TYPE[ts]))
                continue
            inner = tt.get("adt") if tt.get("k") == "adt" else None
            ia = f.adts.get(inner) if inner else None
            if ia and ia.get("local") and inner.startswith("value::") and inner not in serde_selfs and ia["kind"] == "struct":
                sub = walk(t, inner, tt.get("args") or [], depth + 1)
                if sub is None:
                    return None
                out += [((i,) + p_, r_) for p_, r_ in sub]
                continue
            return None
        return out
    return walk(None, adt_path, [], 0)


def _close_paren(x, open_at):
    depth = 0
    for j in range(open_at, len(x)):
        if x[j] in "([":
            depth += 1
        elif x[j] in ")]":
            depth -= 1
            if depth == 0:
                return j
    return -1


def _split_args(inner):
    out_, depth, cur, q = [], 0, "", False
    for ch in inner:
        if ch == "'":
            q = not q
        if not q:
            if ch in "([":
                depth += 1
            elif ch in ")]":
                depth -= 1
        if ch == "," and depth == 0 and not q:
            out_.append(cur.strip())
            cur = ""
        else:
            cur += ch
    if cur.strip():
        out_.append(cur.strip())
    return out_


class LayoutCanon:
    def __init__(self, f):
        self.f = f
        self.serde_selfs = set((b_.get("impl") or {}).get("self_s") for b_ in f.bodies.values() if (b_.get("impl") or {}).get("trait", "").startswith("serde::"))
        self.layouts = {}      # collector adt -> {path: canonical index} for layouts that differ from the canonical one
        self.shapes = {}
        for ap in sorted(x for x in self.serde_selfs if x and x.startswith("value::") and x in f.adts and f.adts[x].get("local")):
            lay = collector_layout(f, ap, self.serde_selfs)
            if not lay or not any(r == "coll" for _, r in lay):
                continue
            roles = [r for _, r in lay if r != "unit"]
            if len(set(roles)) != len(roles):
                continue
            canon = sorted([(p_, r_) for p_, r_ in lay if r_ != "unit"], key=lambda pr: ROLE_ORDER[pr[1]])
            trivial = all(len(p_) == 1 for p_, _ in lay) and [p_ for p_, _ in canon] == [(i,) for i in range(len(canon))] and len(canon) == len(lay)
            if trivial:
                continue
            self.layouts[ap] = {p_: i for i, (p_, _) in enumerate(canon)}
            self.shapes[ap] = lay

    def _ctor(self, x, ap):
        """flatten constructor terms `Short(Carrier(a, b), c)` of collector `ap` into `Short(<leaves in canonical order>)`"""
        short = ap.split("::")[-1]
        pos = 0
        for _ in range(20):
            m = re.search(r"(?<![\w:])%s\(" % re.escape(short), x[pos:])
            if not m:
                break
            a0 = pos + m.start()
            e0 = _close_paren(x, a0 + len(short))
            if e0 < 0:
                break
            leaves = self._leaves(x[a0 + len(short) + 1:e0], ap, [])
            if leaves is None:
                pos = a0 + len(short) + 1
                continue
            order = self.layouts[ap]
            args = [t for _, t in sorted(((order[p_], t) for p_, t in leaves.items() if p_ in order))]
            new = "%s(%s)" % (short, ", ".join(args))
            x = x[:a0] + new + x[e0 + 1:]
            pos = a0 + len(new)
        return x

    def _leaves(self, inner, adt_path, args_t, prefix=()):
        a = self.f.adts[adt_path]
        fields = a["variants"][0]["fields"]
        terms = _split_args(inner)
        if len(terms) != len(fields):
            return None
        out = {}
        gen = a.get("generics") or []
        for i, (fl, term) in enumerate(zip(fields, terms)):
            tt = self.f.ty(fl["ty"])
            if tt.get("k") == "param":
                tt = self.f.ty(args_t[gen.index(tt["s"])])
            ts = re.sub(r"'\w+ ", "", tt["s"])
            if ts in ROLE_OF_TYPE:
                out[prefix + (i,)] = term
                continue
            inner_adt = tt.get("adt")
            sh = inner_adt.split("::")[-1]
            if not (term.startswith(sh + "(") and _close_paren(term, len(sh)) == len(term) - 1):
                return None
            sub = self._leaves(term[len(sh) + 1:-1], inner_adt, tt.get("args") or [], prefix + (i,))
            if sub is None:
                return None
            out.update(sub)
        return out

    def _self(self, x, ap):
        order = self.layouts[ap]
        # nested updates: with_field(B, i, with_field(B.i, j, X)) -> with_field(B, i.j, X)
        for _ in range(40):
            m = re.search(r"with_field\(((?:[^(),]|\((?:[^()]|\([^()]*\))*\))+), ([\d.]+), with_field\(", x)
            hit = False
            for m in re.finditer(r"with_field\(", x):
                e_out = _close_paren(x, m.end() - 1)
                if e_out < 0:
                    continue
                parts = _split_args(x[m.end():e_out])
                if len(parts) != 3 or not parts[2].startswith("with_field("):
                    continue
                e_in = _close_paren(parts[2], len("with_field"))
                if e_in != len(parts[2]) - 1:
                    continue
                inner = _split_args(parts[2][len("with_field("):-1])
                if len(inner) != 3 or inner[0] != "%s.%s" % (parts[0], parts[1]):
                    continue
                x = x[:m.start()] + "with_field(%s, %s.%s, %s)" % (parts[0], parts[1], inner[1], inner[2]) + x[e_out + 1:]
                hit = True
                break
            if not hit:
                break
        # leaf paths -> canonical indices (longest first; both in reads `self.i.j` and in updates `with_field(.., i.j, `)
        for p_, ci in sorted(order.items(), key=lambda kv: -len(kv[0])):
            dotted = ".".join(str(i) for i in p_)
            x = re.sub(r"(with_field\((?:[^(),]|\((?:[^()]|\([^()]*\))*\))+, )%s(?=, )" % re.escape(dotted), lambda m_: m_.group(1) + "#%d" % ci, x)
            x = re.sub(r"(?<=\))\.%s(?![\d.])" % re.escape(dotted), ".#%d" % ci, x)
            x = re.sub(r"\bself\.%s(?![\d.])" % re.escape(dotted), "self.#%d" % ci, x)
        return x.replace("#", "")

    def __call__(self, x, self_adt):
        if not isinstance(x, str) or not self.layouts:
            return x
        for ap in self.layouts:
            x = self._ctor(x, ap)
        if self_adt in self.layouts:
            x = self._self(x, self_adt)
        return x


_layouts = {}


def layout_canon(f):
    key = getattr(f, "path", id(f))
    if key not in _layouts:
        _layouts[key] = LayoutCanon(f)
    return _layouts[key]


def summarize(f, path, with_self=True):
    b = f.bodies[path]
    it = Interp(f)
    st = State()
    args = []
    self_ptr = None
    for i in range(b["arg_count"]):
        l = b["locals"][i + 1]
        ty = f.ty(l["ty"])
        nm = l.get("name", "a%d" % i)
        if ty["k"] == "ref" and i == 0 and nm == "self":
            self_ptr = st.alloc(("sym", "self"))
            args.append(("ref", self_ptr))
        else:
            args.append(("sym", nm))
    res = it.run(path, args, st)
    outs = []
    for s, rv in res:
        final = None
        if self_ptr is not None:
            final = show(norm(it.resolve(s, s.heap[self_ptr[1]])))
        outs.append((tuple(sorted(set(norm_cond(c) for c in s.conds))), LABEL.sub("'*'", show(norm(it.resolve(s, rv)))), final))
    lc = layout_canon(f)
    if lc.layouts:
        sa = ((b.get("impl") or {}).get("self_s") or "").split("<")[0]
        outs = [(tuple((lc(a_, sa), b__) for a_, b__ in c_), lc(r_, sa), lc(fin_, sa)) for c_, r_, fin_ in outs]
    # a crate-private single-field wrapper around a collection (`struct Elements(Vec<Value>)`) is that collection
    wrappers = {}
    serde_selfs = set((b_.get("impl") or {}).get("self_s") for b_ in f.bodies.values() if (b_.get("impl") or {}).get("trait", "").startswith("serde::"))
    for ap, a_ in f.adts.items():
        if a_.get("local") and a_["kind"] == "struct" and ap.startswith("value::ser::") and ap not in serde_selfs and len(a_["variants"][0]["fields"]) == 1:
            wrappers[ap] = ap.split("::")[-1]
    if wrappers:
        self_adt = f.adts.get(((b.get("impl") or {}).get("self_s") or "").split("<")[0])
        wrapped_fields = []
        if self_adt and self_adt["kind"] == "struct":
            for i_, fl in enumerate(self_adt["variants"][0]["fields"]):
                if fl.get("ty") is not None and f.adt_of(f.peel(fl["ty"])) in wrappers:
                    wrapped_fields.append(i_)

        def unwrap(x):
            if not isinstance(x, str):
                return x
            for i_ in wrapped_fields:
                x = re.sub(r"\bself\.%d\.0\b" % i_, "self.%d" % i_, x)
            for i_ in wrapped_fields:
                # updating the wrapper's only field is updating the wrapped collection
                head = "with_field(self.%d, 0, " % i_
                while head in x:
                    a0 = x.index(head)
                    depth, j = 0, a0 + len("with_field")
                    while j < len(x):
                        if x[j] == "(":
                            depth += 1
                        elif x[j] == ")":
                            depth -= 1
                            if depth == 0:
                                break
                        j += 1
                    x = x[:a0] + x[a0 + len(head):j] + x[j + 1:]
            for w in wrappers.values():
                while True:
                    m_ = re.search(r"(?<![\w:])%s\(" % re.escape(w), x)
                    if not m_:
                        break
                    depth, j = 0, m_.end() - 1
                    while j < len(x):
                        if x[j] == "(":
                            depth += 1
                        elif x[j] == ")":
                            depth -= 1
                            if depth == 0:
                                break
                        j += 1
                    x = x[:m_.start()] + x[m_.end():j] + x[j + 1:]
            return x
        outs = [(tuple((unwrap(a_), b__) for a_, b__ in c_), unwrap(r_), unwrap(fin_)) for c_, r_, fin_ in outs]
    # a collector kept inside another collector (`SerializeTupleVariantValue { variant, items: SerializeVecValue }`) stands
    # for its collection: the inner collector's collection field is read through
    COLL = ("std::vec::Vec<value::Value>", "std::collections::BTreeMap<std::string::String, value::Value>")
    inner_coll = {}
    for ap, a_ in f.adts.items():
        if a_.get("local") and a_["kind"] == "struct" and ap.startswith("value::"):
            js = [j_ for j_, fl in enumerate(a_["variants"][0]["fields"]) if re.sub(r"'\w+ ", "", fl.get("ty_s", "")) in COLL]
            if len(js) == 1:
                inner_coll[ap] = js[0]
    self_adt2 = f.adts.get(((b.get("impl") or {}).get("self_s") or "").split("<")[0])
    nested = {}
    if self_adt2 and self_adt2["kind"] == "struct":
        for i_, fl in enumerate(self_adt2["variants"][0]["fields"]):
            ad_ = f.adt_of(f.peel(fl["ty"])) if fl.get("ty") is not None else None
            if ad_ in inner_coll:
                nested[i_] = inner_coll[ad_]
    outer_shorts = set(ap.split("::")[-1] for ap in inner_coll) | set(ap.split("::")[-1] for ap, a_ in f.adts.items() if a_.get("local") and ap.startswith("value::") and a_["kind"] == "struct")

    def close_(x, open_at):
        depth = 0
        for j in range(open_at, len(x)):
            if x[j] == "(":
                depth += 1
            elif x[j] == ")":
                depth -= 1
                if depth == 0:
                    return j
        return -1

    def split_(inner):
        out_, depth, cur = [], 0, ""
        for ch in inner:
            if ch in "([":
                depth += 1
            elif ch in ")]":
                depth -= 1
            if ch == "," and depth == 0:
                out_.append(cur.strip())
                cur = ""
            else:
                cur += ch
        if cur.strip():
            out_.append(cur.strip())
        return out_

    def unnest(x):
        if not isinstance(x, str):
            return x
        for i_, j_ in nested.items():
            x = re.sub(r"\bself\.%d\.%d\b" % (i_, j_), "self.%d" % i_, x)
            head = "with_field(self.%d, %d, " % (i_, j_)
            while head in x:
                a0 = x.index(head)
                e0 = close_(x, a0 + len("with_field"))
                if e0 < 0:
                    break
                x = x[:a0] + x[a0 + len(head):e0] + x[e0 + 1:]
        # an inner collector's constructor as a direct argument of another collector's constructor
        changed = True
        guard = 0
        while changed and guard < 20:
            changed = False
            guard += 1
            for m_ in re.finditer(r"(?<![\w:])(\w+)\(", x):
                if m_.group(1) not in outer_shorts:
                    continue
                e0 = close_(x, m_.end() - 1)
                if e0 < 0:
                    continue
                args_ = split_(x[m_.end():e0])
                new_args = []
                hit = False
                for a_ in args_:
                    m2 = re.match(r"(\w+)\(", a_)
                    ap2 = next((ap for ap in inner_coll if m2 and ap.split("::")[-1] == m2.group(1)), None)
                    if ap2 and close_(a_, m2.end() - 1) == len(a_) - 1:
                        sub = split_(a_[m2.end():-1])
                        if len(sub) == len(f.adts[ap2]["variants"][0]["fields"]):
                            new_args.append(sub[inner_coll[ap2]])
                            hit = True
                            continue
                    new_args.append(a_)
                if hit:
                    x = x[:m_.end()] + ", ".join(new_args) + x[e0:]
                    changed = True
                    break
        return x
    outs = [(tuple((unnest(a_), b__) for a_, b__ in c_), unnest(r_), unnest(fin_)) for c_, r_, fin_ in outs]
    # ValueSerializer is a unit struct: inside its own methods `self` and a fresh `ValueSerializer` are the same value
    if (b.get("impl") or {}).get("self_s", "").endswith("ValueSerializer"):
        unit = lambda x: re.sub(r"(?<=, )ValueSerializer(?=[,)])|(?<=\()ValueSerializer(?=[,)])", "self", x) if isinstance(x, str) else x
        outs = [(tuple((unit(a_), b__) for a_, b__ in c_), unit(r_), fin_) for c_, r_, fin_ in outs]
    return sorted(outs, key=repr)


def run(res, f, tier):
    ser_bodies = {}
    for d, b in f.bodies.items():
        im = b.get("impl") or {}
        if b["kind"] == "AssocFn" and im.get("trait", "").startswith("serde::") and im["self_s"].split("<")[0] in f.adts and f.adts[im["self_s"].split("<")[0]].get("local") \
                and im["self_s"].startswith("value::"):
            ser_bodies[(im["self_s"].split("::")[-1], im["trait"].split("::")[-1], b["name"])] = d
    custom = [d for d, b in f.bodies.items() if b["name"] == "custom" and (b.get("impl") or {}).get("trait") == "serde::ser::Error"]
    # crate-local functions the serializer methods call (free helpers next to them)
    helpers = [d for d in evalsum.reachable_local(f, sorted(ser_bodies.values())) if d not in ser_bodies.values() and d.startswith("value::")
               and not f.bodies[d].get("parent") and not (f.bodies[d].get("impl") or {}).get("trait")]
    vs_methods = {k[2]: d for k, d in ser_bodies.items() if k[0] == "ValueSerializer" and k[1] == "Serializer"}
    ss_methods = {k[2]: d for k, d in ser_bodies.items() if k[0] == "StringSerializer" and k[1] == "Serializer"}
    res.floor("Serializer methods of ValueSerializer", len(vs_methods), 30)
    res.floor("Serializer methods of StringSerializer", len(ss_methods), 28)
    res.floor("collector trait methods", len([k for k in ser_bodies if k[1] != "Serializer"]), 15)
    if len(custom) != 1:
        raise Inconclusive("impl serde::ser::Error for the crate's Error not found")
    obligations = discharged = 0
    samples = []

    def ob(ok, key, what, detail=None):
        nonlocal obligations, discharged
        obligations += 1
        if ok:
            discharged += 1
        else:
            res.violation(key, what, detail)

    # ---- 1/2: hazards (panic sites, lossy casts) in every serializer body and its closures
    bodies = list(ser_bodies.values()) + custom + helpers
    ser_fn = [d for d, b in f.bodies.items() if b["name"] == "ser" and (b.get("impl") or {}).get("self_s") == "error::Error"]
    bodies += ser_fn
    for d in list(bodies):
        bodies += [c["def"] for c in f.closures_of(d)]
    nsites = 0
    for d in bodies:
        for s in hazards.sites(f, f.bodies[d]):
            nsites += 1
            if s["cls"] in ("partial", "silent"):
                k = hazards.key("C13", d, s)
                if k in ALLOWED_HAZARDS:
                    res.notes.append("allow-listed: %s (%s)" % (k, ALLOWED_HAZARDS[k]))
                    continue
                ob(False, k, "%s in %s at %s: %s" % (s["detail"], d, s["span"], s["reason"]), {"site": s})
    # custom: must build an error value from the message
    outs = summarize(f, custom[0])
    ob(len(outs) == 1 and outs[0][1].startswith("ValueSerializationError(") and "PANIC" not in outs[0][1],
       "C13|custom", "serde's custom-error hook must return the crate's serialization error (found %s)" % outs)
    # ---- 3: per-kind mapping
    for m, d in sorted(vs_methods.items()):
        outs = [(c, r) for c, r, _ in summarize(f, d)]
        key = "C13|kind|ValueSerializer::%s" % m
        if m in VALUE_SERIALIZER:
            ok = any(sorted(outs) == sorted(w) for w in VALUE_SERIALIZER[m])
        elif m in ("serialize_seq", "serialize_tuple", "serialize_tuple_struct"):
            ok = fresh_vec_ok("Ok(SerializeVecValue(%s))", outs)
        elif m == "serialize_tuple_variant":
            ok = fresh_vec_ok("Ok(SerializeTupleVariantValue(variant, %s))", outs)
        elif m == "serialize_bytes":
            # Ok(Vec(<forward iteration over the bytes>.map(<byte -> Int, widened losslessly>).collect()))
            r = outs[0][1] if len(outs) == 1 else ""
            mm = re.fullmatch(r"Ok\(Vec\(\w+::collect\(\w+::map\((?P<src>.*), (?:closure\((?P<clo>[^()]*(?:\{[^}]*\})?[^()]*)\)|fn (?P<fn>.+))\)\)\)\)", r)
            ok = False
            if mm and mm.group("src") in ("[u8]::iter(value)", "Iter::copied([u8]::iter(value))", "Iter::cloned([u8]::iter(value))", "into_iter(value)"):
                import c17
                WIDEN = re.compile(r"^Int\((i128::from<u8>|i128::from<impl Into[^()]*>|Into::into|cast:IntToInt:u8->i128)\((e|value|a0)\)\)$")
                if mm.group("clo"):
                    cs = c17.closure_summary(f, mm.group("clo"))
                else:
                    fp = [d_ for d_, b_ in f.bodies.items() if short_callee(d_) == mm.group("fn") or d_ == mm.group("fn") or d_.endswith("::" + mm.group("fn").split("::")[-1])]
                    cs = []
                    if len(fp) == 1:
                        o2, _ = evalsum.summarize_fn(f, fp[0])
                        cs = [(c_, r_) for c_, r_, _, _ in o2]
                ok = len(cs) == 1 and not cs[0][0] and bool(WIDEN.match(cs[0][1]))
        else:
            ok = False
        ob(ok, key, "ValueSerializer::%s does not build the prescribed Value: %s" % (m, outs), {"fn": d})
        if len(samples) < 10 and m in ("serialize_u128", "serialize_newtype_variant", "serialize_u32", "serialize_unit_variant", "serialize_bytes"):
            samples.append({"method": "ValueSerializer::" + m, "outcomes": [r for _, r in outs]})
    # collectors
    def coll(selfty, trait, method):
        d = ser_bodies.get((selfty, trait, method))
        if not d:
            raise Inconclusive("collector method %s::%s::%s not found" % (selfty, trait, method))
        return summarize(f, d)

    def elem_rule(selfty, trait, method, field):
        outs = coll(selfty, trait, method)
        want = sorted([(((SERV, "fails"),), ERRV, "self"),
                       (((SERV, "ok"),), "Ok(tuple())", "with_field(self, %d, push(self.%d, %s))" % (field, field, OKV))], key=repr)
        ob(outs == want, "C13|collector|%s::%s" % (selfty, method),
           "%s::%s must append the serialised element (order kept) and propagate its failure: %s" % (selfty, method, outs))

    elem_rule("SerializeVecValue", "SerializeSeq", "serialize_element", 0)
    for tr, me in (("SerializeTuple", "serialize_element"), ("SerializeTupleStruct", "serialize_field")):
        outs = coll("SerializeVecValue", tr, me)
        direct = sorted([(((SERV, "fails"),), ERRV, "self"), (((SERV, "ok"),), "Ok(tuple())", "with_field(self, 0, push(self.0, %s))" % OKV)], key=repr)
        ob(outs == direct, "C13|collector|SerializeVecValue::%s::%s" % (tr, me), "%s::%s must behave like serialize_element: %s" % (tr, me, outs))
    for tr in ("SerializeSeq", "SerializeTuple", "SerializeTupleStruct"):
        outs = coll("SerializeVecValue", tr, "end")
        ob([(c, r) for c, r, _ in outs] == [((), "Ok(Vec(self.0))")], "C13|collector|SerializeVecValue::%s::end" % tr, "end must wrap the collected elements in Value::Vec: %s" % outs)
    elem_rule("SerializeTupleVariantValue", "SerializeTupleVariant", "serialize_field", 1)
    outs = coll("SerializeTupleVariantValue", "SerializeTupleVariant", "end")
    ob([(c, r) for c, r, _ in outs] == [((), "Ok(Map(insert(BTreeMap::new(), self.0, Vec(self.1))))")], "C13|collector|SerializeTupleVariantValue::end", "tuple variant must become {variant: [fields]}: %s" % outs)
    outs = coll("SerializeMapValue", "SerializeMap", "serialize_key")
    K = "T::serialize(key, StringSerializer)"
    want = sorted([(((K, "fails"),), "Err(T::serialize!err(key, StringSerializer))", "self"),
                   (((K, "ok"),), "Ok(tuple())", "with_field(self, 1, Some(T::serialize!(key, StringSerializer)))")], key=repr)
    ob(outs == want, "C13|collector|SerializeMapValue::serialize_key", "map keys must be serialised by the string-only key serializer and remembered: %s" % outs)
    outs = coll("SerializeMapValue", "SerializeMap", "serialize_value")
    okouts = [o for o in outs if "PANIC" not in o[1]]
    good = any(o[1] == "Ok(tuple())" and o[2] and "insert(self.0, Option::expect(self.1, " in o[2] and OKV in o[2] for o in okouts) and \
        any(o[1] == ERRV for o in okouts)
    ob(good, "C13|collector|SerializeMapValue::serialize_value", "map values must be inserted under the remembered key: %s" % outs)
    for tr in ("SerializeMap", "SerializeStruct"):
        outs = coll("SerializeMapValue", tr, "end")
        ob([(c, r) for c, r, _ in outs] == [((), "Ok(Map(self.0))")], "C13|collector|SerializeMapValue::%s::end" % tr, "end must wrap the entries in Value::Map: %s" % outs)
    outs = coll("SerializeMapValue", "SerializeStruct", "serialize_field")
    ob([(c, r) for c, r, _ in outs] == [((), "SerializeMapValue::serialize_entry(self, key, value)")] or
       any("insert(self.0, key" in (o[2] or "") for o in outs),
       "C13|collector|SerializeMapValue::SerializeStruct::serialize_field", "struct fields must be stored as map entries under the field name: %s" % outs)
    outs = coll("SerializeStructVariantValue", "SerializeStructVariant", "serialize_field")
    want = sorted([(((SERV, "fails"),), ERRV, "self"),
                   (((SERV, "ok"),), "Ok(tuple())", "with_field(self, 1, insert(self.1, key, %s))" % OKV)], key=repr)
    ob(outs == want, "C13|collector|SerializeStructVariantValue::serialize_field", "struct-variant fields must be stored under the field name: %s" % outs)
    outs = coll("SerializeStructVariantValue", "SerializeStructVariant", "end")
    ob([(c, r) for c, r, _ in outs] == [((), "Ok(Map(insert(BTreeMap::new(), self.0, Map(self.1))))")], "C13|collector|SerializeStructVariantValue::end", "struct variant must become {variant: {fields}}: %s" % outs)
    # string-only key serializer
    for m, d in sorted(ss_methods.items()):
        outs = [(c, r) for c, r, _ in summarize(f, d)]
        if m == "serialize_str":
            ok = outs == [((), "Ok(value)")]
        else:
            ok = len(outs) == 1 and outs[0][1].startswith("Err(ValueSerializationError(")
        ob(ok, "C13|key|StringSerializer::%s" % m, "the map-key serializer must accept strings only and reject %s with an error: %s" % (m, outs))
    import control
    controls = control.hazard_controls()
    res.coverage = {
        "positive_controls": controls,
        "explanation": "hazard sites of all %d serializer bodies (+closures) classified; %d Serializer methods of ValueSerializer, %d collector methods and %d "
                       "StringSerializer methods summarised (tag-symbolic, with the collector state after the call) and compared with the per-kind mapping"
                       % (len(bodies), len(vs_methods), len([k for k in ser_bodies if k[1] != "Serializer"]), len(ss_methods)),
        "obligations": obligations, "discharged": discharged, "hazard_sites": nsites,
        "allow_listed_hazards": list(ALLOWED_HAZARDS),
        "rule": "no partial/silent site; every method's outcome set == the mapping of its serde kind",
        "samples": samples,
        "exhaustive": True,
    }
    res.assumptions = ["serde's default serialize_entry = serialize_key then serialize_value; serde's default serialize_i128/u128 for StringSerializer call Error::custom",
                       "a Serialize impl that calls serialize_value before serialize_key is not a serde-serialisable value (allow-listed expect)"]
