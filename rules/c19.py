"""C19 — deeply nested input cannot crash the host process (the cause, not the depth).

Decided: every call cycle of the monomorphic instance graph (resolved through derived impls, fmt function
pointers, vtables and drop glue, descending into upstream MIR) whose depth follows the nesting of an
Expr / Value tree must contain a depth guard; the generated LR parser must not be recursive.
NOT decided: the numeric depth at which a given stack overflows."""
import hashlib
import re

from framework import Inconclusive

LEVEL = "other"
TREE = re.compile(r"\b(expr::Expr|value::Value)\b")


def sccs_of(n, adj):
    index = [None] * n
    low = [0] * n
    on = [False] * n
    st = []
    out = []
    idx = 0
    for root in range(n):
        if index[root] is not None:
            continue
        work = [(root, 0)]
        while work:
            v, pi = work[-1]
            if pi == 0:
                index[v] = low[v] = idx
                idx += 1
                st.append(v)
                on[v] = True
            rec = False
            for i in range(pi, len(adj[v])):
                w = adj[v][i]
                if index[w] is None:
                    work[-1] = (v, i + 1)
                    work.append((w, 0))
                    rec = True
                    break
                elif on[w]:
                    low[v] = min(low[v], index[w])
            if rec:
                continue
            if low[v] == index[v]:
                comp = []
                while True:
                    w = st.pop()
                    on[w] = False
                    comp.append(w)
                    if w == v:
                        break
                out.append(comp)
            work.pop()
            if work:
                u = work[-1][0]
                low[u] = min(low[u], low[v])
    return out


def dominators(succ, n, entry=0):
    dom = [None] * n
    dom[entry] = {entry}
    allb = set(range(n))
    changed = True
    preds = [[] for _ in range(n)]
    for a in range(n):
        for b in succ[a]:
            preds[b].append(a)
    order = list(range(n))
    for i in range(n):
        if i != entry:
            dom[i] = set(allb)
    while changed:
        changed = False
        for b in order:
            if b == entry:
                continue
            ps = [dom[p] for p in preds[b] if dom[p] is not None]
            new = set.intersection(*ps) if ps else set()
            new = new | {b}
            if new != dom[b]:
                dom[b] = new
                changed = True
    return dom


def has_depth_guard(f, body_path, scc_paths):
    """a bounded-depth test in `body_path`: an integer comparison whose block dominates every call back into the
    cycle, with another successor that returns without such a call"""
    import hazards
    from mir import callee_of
    b = f.bodies.get(body_path)
    if not b:
        return False
    blocks = b["blocks"]
    n = len(blocks)
    succ = [[x for x in hazards.successors(blk["term"]) if not blocks[x]["cleanup"]] for blk in blocks]
    rec_blocks = []
    for i, blk in enumerate(blocks):
        t = blk["term"]
        if t["k"] == "call" and not blk["cleanup"]:
            c = callee_of(t)
            if c and (c.get("resolved") or c["path"]) in scc_paths:
                rec_blocks.append(i)
        for s in blk["stmts"]:
            if s["k"] == "assign" and s["rv"]["k"] == "agg" and s["rv"]["ak"] in ("closure", "coroutine") and s["rv"]["def"] in scc_paths:
                rec_blocks.append(i)
    if not rec_blocks:
        return False
    cmp_blocks = []
    for i, blk in enumerate(blocks):
        if blk["term"]["k"] != "switch":
            continue
        for s in blk["stmts"]:
            if s["k"] == "assign" and s["rv"]["k"] == "binop" and s["rv"]["op"] in ("Lt", "Le", "Gt", "Ge") and f.ty(s["rv"]["opty"])["k"] in ("int", "uint"):
                cmp_blocks.append(i)
    if not cmp_blocks:
        return False
    dom = dominators(succ, n)
    for c in cmp_blocks:
        if all(dom[r] is not None and c in dom[r] for r in rec_blocks):
            return True
    return False


def run(res, f, tier):
    m = f.mono
    nodes = m["nodes"]
    n = len(nodes)
    res.floor("monomorphic instances", n, 1500)
    res.floor("call edges", len(m["edges"]), 5000)
    adj = [[] for _ in range(n)]
    for a, b, k in m["edges"]:
        adj[a].append(b)
    # dynamic dispatch: a call of `<dyn Tr>::m` can land in every implementation of Tr::m that was put behind a `dyn Tr`
    # somewhere (the `vtable` edges of the unsizing coercions).  Only the trait-object types that range over tree nodes
    # are closed this way (`Box<dyn Iterator<Item = &mut Expr>>` re-wrapped around itself once per node): std's own
    # dyn recursion (fmt) is bounded by construction and already represented through the formatter's function pointers.
    vt_targets = {}
    for a, b, k in m["edges"]:
        if k == "vtable":
            mname = nodes[b]["path"].split("::")[-1]
            vt_targets.setdefault(mname, set()).add(b)
    virtual_edges = 0
    for i, nd in enumerate(nodes):
        if nd.get("kind") == "Virtual" and TREE.search(nd["s"]) and " as std::fmt::" not in nd["s"]:
            mname = nd["path"].split("::")[-1]
            mtr = re.search(r"<dyn ([\w:]+)", nd["s"])
            for b in vt_targets.get(mname, ()):
                if mtr and (" as %s" % mtr.group(1)) in nodes[b]["s"] and TREE.search(nodes[b]["s"]) and not nodes[b]["s"].startswith("<dyn "):
                    adj[i].append(b)
                    virtual_edges += 1
    comps = sccs_of(n, adj)
    cycles = [c for c in comps if len(c) > 1 or c[0] in adj[c[0]]]
    relevant = []
    parser_cycles = []
    for c in cycles:
        local = sorted(nodes[i]["path"] for i in c if nodes[i]["local"])
        drops = sorted((nodes[i].get("drop_ty", "") for i in c if nodes[i]["kind"] == "DropGlue" and TREE.search(nodes[i].get("drop_ty", "")) and not nodes[i].get("drop_ty", "").startswith("dyn ")),
                       key=lambda x: (len(x), x))
        if any("__parse__" in p or re.search(r"::__(reduce|action|goto)", p) for p in local):
            parser_cycles.append(local)
        if local and any(TREE.search(nodes[i]["s"]) or nodes[i]["local"] for i in c):
            relevant.append((c, local, drops))
        elif drops:
            relevant.append((c, local, drops))
        elif any(nodes[i].get("kind") == "Virtual" and TREE.search(nodes[i]["s"]) for i in c):
            # no crate-local member, but a trait object over tree nodes that can wrap itself (adaptors boxed as `dyn`
            # around a boxed `dyn` of the same trait): the nesting, and with it the recursion, grows with the input
            relevant.append((c, ["dyn:" + sorted(nodes[i]["s"] for i in c if nodes[i].get("kind") == "Virtual")[0][:120]], drops))
    # mandatory anchors: the operations the property names must be in the graph at all
    names = set(x["path"] for x in nodes)
    for tr_, me_ in (("std::clone::Clone", "clone"), ("std::cmp::PartialEq", "eq"), ("std::fmt::Display", "fmt"), ("std::fmt::Debug", "fmt")):
        anchor = f.impl_method(tr_, "expr::Expr", me_)
        if not anchor or anchor not in names:
            raise Inconclusive("operation <expr::Expr as %s>::%s is missing from the instance graph" % (tr_, me_))
    if not any(x["kind"] == "DropGlue" and x.get("drop_ty") == "expr::Expr" for x in nodes):
        raise Inconclusive("drop glue of Expr is missing from the instance graph")
    for pc in parser_cycles:
        res.violation("C19|parser-recursion|%s" % pc[0], "the generated LR parser must be table-driven (heap stack) but is recursive through %s" % pc[:4])
    samples = []
    guarded = 0
    cycle_keys = []
    local_roots = set(p_.split("::")[0] for p_, a_ in f.adts.items() if a_.get("local"))
    radj_all = {}
    for a_, b_, k_ in m["edges"]:
        radj_all.setdefault(b_, []).append(a_)
    for c, local, drops in relevant:
        if local:
            # the cycle is named after the member through which it is entered from outside (stable when helpers are
            # extracted or inlined inside the cycle); SCCs are disjoint, so the name identifies the cycle
            cs_ = set(c)
            entered = sorted(set(nodes[i]["path"] for i in c if nodes[i]["local"] and any(a_ not in cs_ for a_ in radj_all.get(i, []))))
            def canon(pth):
                # a trait method is named after (type, trait, method), not after the module its impl block sits in
                b_ = f.bodies.get(pth)
                im_ = (b_ or {}).get("impl") or {}
                if b_ and im_.get("trait") and not b_.get("parent") and im_["trait"].split("::")[0] not in local_roots:
                    return "<%s as %s>::%s" % (im_["self_s"], im_["trait"], b_["name"])
                if b_ and not b_.get("parent"):
                    # an inherent or free function, or a method of a crate-private trait, is named after its signature
                    # (stable under renaming / moving / turning a function into a trait method)
                    def shape(t_):
                        trees = [x.split("::")[-1] for x in TREE.findall(t_)]
                        return "+".join(dict.fromkeys(trees)) if trees else "_"
                    ins = sorted((shape(f.ty_s(b_["locals"][i]["ty"])) for i in range(1, b_["arg_count"] + 1)), key=lambda x_: (x_ == "_", x_))
                    return "fn(%s) -> %s" % (", ".join(ins), shape(f.ty_s(b_["locals"][0]["ty"])))
                return pth
            # prefer the operations of the tree types themselves over helper types met on the way
            ent_names = set(canon(x) for x in entered)
            names_ = sorted(set(canon(x) for x in local if not f.bodies.get(x, {}).get("parent")),
                            key=lambda n_: (0 if n_.startswith("<") and TREE.search(n_.split(" as ")[0]) else (1 if n_ in ent_names else 2), n_))
            key = "C19|cycle|%s" % (names_[0] if names_ else canon(local[0]))
            what = "unbounded recursion over the expression / value tree through %s" % ", ".join(local[:5])
        else:
            key = "C19|cycle|drop:%s" % drops[0]
            what = "recursive drop glue over %s (depth follows the nesting of the tree)" % ", ".join(drops[:3])
        scc_paths = set(nodes[i]["path"] for i in c)
        g = [p for p in local if has_depth_guard(f, p, scc_paths)]
        # guarded iff removing the guarded functions breaks every cycle of the component
        if g:
            keep = [i for i in c if nodes[i]["path"] not in g]
            idx = {v: k for k, v in enumerate(keep)}
            sub = [[idx[w] for w in adj[v] if w in idx] for v in keep]
            still = [x for x in sccs_of(len(keep), sub) if len(x) > 1 or x[0] in sub[x[0]]]
            if not still:
                guarded += 1
                cycle_keys.append((c, local, drops, key, True))
                continue
        cycle_keys.append((c, local, drops, key, False))
        res.violation(key, what, {"members": [nodes[i]["s"][:160] for i in c][:12], "size": len(c)})
        samples.append({"cycle": key, "size": len(c), "members": [nodes[i]["s"][:120] for i in c][:4]})
    # ---- which of the property's entry operations reach an unguarded cycle (parse and evaluate are not cycles
    # themselves; print / clone / compare / debug / drop are, and are reported above)
    adjk = {}
    for a, b, k in m["edges"]:
        adjk.setdefault(a, []).append(b)
    idx = {}
    for i, nd in enumerate(nodes):
        idx.setdefault(nd["path"], []).append(i)
    OPS = {
        "parse": [p for p in idx if p.endswith("::parse") and ("impl expr::Expr" in p or "impl ruleset::rule::Rule" in p)],
    }   # evaluation is itself an unguarded cycle (reported above); everything it reaches is dominated by that finding
    reach_rows = []
    for op, roots in sorted(OPS.items()):
        if not roots:
            raise Inconclusive("entry operation %s missing from the instance graph" % op)
        seen = set()
        todo = [i for p in roots for i in idx[p]]
        while todo:
            x = todo.pop()
            if x in seen:
                continue
            seen.add(x)
            todo += adjk.get(x, [])
        for c, local, drops, key, isguarded in cycle_keys:
            if isguarded:
                continue
            if any(i in seen for i in c):
                short = key.split("|", 2)[2].split("#")[0]
                rk = "C19|reach|%s|%s" % (op, short)
                res.violation(rk, "%s can run into the unbounded recursion %s (so a deep enough input aborts the process during %s)" % (op, short, op))
                reach_rows.append(rk)
    res.floor("recursion cycles over the tree types", len(relevant), 6)
    import control
    controls = control.recursion_controls()
    res.coverage = {
        "positive_controls": controls,
        "explanation": "strongly connected components of the monomorphic instance call graph (%d instances, %d edges: calls, fn references, closures/coroutines, "
                       "vtable methods of unsizing casts, drop glue; upstream MIR followed where rustc has it) — %d cyclic components, %d of them recurse over Expr/Value; "
                       "each must contain a depth test dominating every recursive call" % (n, len(m["edges"]), len(cycles), len(relevant)),
        "instances": n, "edges": len(m["edges"]), "cyclic_components": len(cycles), "tree_recursion_cycles": len(relevant), "guarded": guarded,
        "parser_cycles": len(parser_cycles), "operations_reaching_unguarded_cycles": reach_rows,
        "rule": "no unguarded call cycle whose depth follows the tree; no cycle through the generated parser's reduce/action functions",
        "samples": samples[:14],
        "exhaustive": True,
    }
    res.assumptions = ["std's sort / fmt internal recursion (cycles without a crate-local member or tree drop glue) is bounded by construction and not input-depth driven",
                       "the stack depth at which the process dies is not computed; only the presence of unbounded tree-driven recursion"]
