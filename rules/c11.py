"""C11 — user-function caching is transparent, per evaluation and per argument (structural part).

Decided: the function invoked is the one looked up by name; the cache is consulted / filled only for
cacheable functions; get and insert use the same key, which is built from the name and the whole
argument and nothing else; a hit makes no call; only successful results are stored; errors are wrapped
with the function name; the cache object is created per evaluation call and only threaded downwards.
NOT decided: injectivity of the "{name}-{param:?}" rendering (Debug output of foreign types)."""
import re
import evalsum
from framework import Inconclusive
from norm import norm, norm_cond, show, short_callee

LEVEL = "other"


def find1(f, pred, what):
    c = [d for d, b in f.bodies.items() if pred(d, b)]
    if len(c) != 1:
        raise Inconclusive("anchor %s not found (%s)" % (what, c))
    return c[0]


def leaves(t, out=None, parent=None):
    """(leaf, name of the enclosing call) of a normalised term"""
    out = out if out is not None else []
    if isinstance(t, str):
        out.append((t, parent))
    else:
        for x in t[1:]:
            leaves(x, out, t[0])
    return out


def calls_of(s):
    return [("call", short_callee(e[1])) + tuple(show(norm(a)) for a in e[2]) for e in s.events if e[0] == "call"]


CACHE_MAP = "std::collections::BTreeMap<std::string::String, value::Value>"
CACHE_REF = "&mut " + CACHE_MAP


def CACHE_REF_OF(f, uf_call):
    ub = f.bodies[uf_call]
    muts = [f.ty_s(ub["locals"][i]["ty"]) for i in range(2, ub["arg_count"] + 1) if f.ty_s(ub["locals"][i]["ty"]).startswith("&mut ")]
    return muts[0] if len(muts) == 1 else None


def helpers_of(f, uf_call):
    """UserFunctions::call and the helpers that only it (or another such helper) calls"""
    from mir import callee_of

    def root_of(d):
        while f.bodies.get(d, {}).get("parent"):
            d = f.bodies[d]["parent"]
        return d
    callers = {}
    for d, b in f.bodies.items():
        for blk in b["blocks"]:
            t = blk["term"]
            if t["k"] == "call":
                c = callee_of(t)
                p_ = c and (c.get("resolved") or c["path"])
                if p_ in f.bodies:
                    callers.setdefault(root_of(p_), set()).add(root_of(d))
    exempt = {uf_call}
    grew = True
    while grew:
        grew = False
        for g, cs in callers.items():
            if g not in exempt and cs and cs <= exempt:
                exempt.add(g)
                grew = True
    return exempt


def cache_touch_sites(f, uf_call):
    """calls of non-local functions that receive the cache object, in bodies other than UserFunctions::call
    (local taint: the cache is a parameter / captured variable / struct field of type &mut BTreeMap<String, Value>,
    or an owned map whose &mut is handed to a crate-local function; copies, moves and reborrows propagate)"""
    from mir import callee_of
    sites = []
    bodies_with_cache = 0
    # the cache type is whatever UserFunctions::call receives by `&mut` (a map today; a wrapper struct is as good)
    ub = f.bodies[uf_call]
    muts = [f.ty_s(ub["locals"][i]["ty"]) for i in range(2, ub["arg_count"] + 1) if f.ty_s(ub["locals"][i]["ty"]).startswith("&mut ")]
    if len(muts) != 1:
        raise Inconclusive("UserFunctions::call does not take exactly one `&mut` parameter (the cache): %s" % muts)
    CACHE_REF = muts[0]
    CACHE_MAP = CACHE_REF[5:]
    wrapper = CACHE_MAP in f.adts and f.adts[CACHE_MAP].get("local")
    cache_types = {CACHE_REF} | ({CACHE_MAP, "&" + CACHE_MAP} if wrapper else set())

    def root_of(d):
        while f.bodies.get(d, {}).get("parent"):
            d = f.bodies[d]["parent"]
        return d

    # helpers that only UserFunctions::call (or another such helper) calls belong to it
    callers = {}
    for d, b in f.bodies.items():
        for blk in b["blocks"]:
            t = blk["term"]
            if t["k"] == "call":
                c = callee_of(t)
                p_ = c and (c.get("resolved") or c["path"])
                if p_ in f.bodies:
                    callers.setdefault(root_of(p_), set()).add(root_of(d))
    exempt = {uf_call}
    grew = True
    while grew:
        grew = False
        for g, cs in callers.items():
            if g not in exempt and cs and cs <= exempt:
                exempt.add(g)
                grew = True
    for d, b in f.bodies.items():
        owner = b.get("parent") or d
        root = d
        while f.bodies.get(root, {}).get("parent"):
            root = f.bodies[root]["parent"]
        nloc = len(b["locals"])
        tys = [f.ty_s(l["ty"]) for l in b["locals"]]
        tainted = set(i for i in range(1, b["arg_count"] + 1) if tys[i] in cache_types)
        if wrapper:
            tainted |= set(i for i in range(1, nloc) if tys[i] in cache_types)

        def place_tainted(pl):
            if pl["l"] in tainted:
                return True
            for e in pl["p"]:
                if e[0] == "field" and len(e) > 2 and f.ty_s(e[2]) in cache_types:
                    return True
            return False

        # owned maps whose &mut goes to a crate-local callee
        refs_of = {}
        for blk in b["blocks"]:
            for st in blk["stmts"]:
                if st["k"] == "assign" and st["rv"]["k"] == "ref" and st["rv"].get("bk") == "mut" and not st["rv"]["place"]["p"]:
                    src = st["rv"]["place"]["l"]
                    if tys[src] == CACHE_MAP and not st["place"]["p"]:
                        refs_of.setdefault(st["place"]["l"], src)
        owned = set()
        changed = True
        while changed:
            changed = False
            for blk in b["blocks"]:
                for st in blk["stmts"]:
                    if st["k"] != "assign" or st["place"]["p"]:
                        continue
                    rv = st["rv"]
                    dst = st["place"]["l"]
                    src_pl = None
                    if rv["k"] == "use" and rv["op"]["k"] in ("move", "copy"):
                        src_pl = rv["op"]["place"]
                    elif rv["k"] == "ref":
                        src_pl = rv["place"]
                    elif rv["k"] == "cast" and rv.get("op", {}).get("k") in ("move", "copy"):
                        src_pl = rv["op"]["place"]
                    if src_pl is not None and dst not in tainted and (place_tainted(src_pl) or (rv["k"] == "ref" and not src_pl["p"] and src_pl["l"] in owned)):
                        tainted.add(dst)
                        changed = True
                t = blk["term"]
                if t["k"] == "call":
                    c = callee_of(t)
                    local = bool(c and (c.get("resolved_local", c.get("local"))) and ((c.get("resolved") or c["path"]) in f.bodies))
                    for a in t["args"]:
                        if a["k"] in ("move", "copy") and not a["place"]["p"] and a["place"]["l"] in refs_of and local:
                            if refs_of[a["place"]["l"]] not in owned:
                                owned.add(refs_of[a["place"]["l"]])
                                changed = True
        for l, src in refs_of.items():
            if src in owned:
                tainted.add(l)
        if tainted:
            bodies_with_cache += 1
        if root in exempt:
            continue
        for blk in b["blocks"]:
            t = blk["term"]
            if t["k"] != "call" or blk.get("cleanup"):
                continue
            c = callee_of(t)
            if not c:
                continue
            local = bool(c.get("resolved_local", c.get("local"))) and ((c.get("resolved") or c["path"]) in f.bodies)
            if local:
                continue
            if any(a["k"] in ("move", "copy") and place_tainted(a["place"]) for a in t["args"]):
                sites.append("%s calls %s at %s" % (d, short_callee(c.get("resolved_full") or c["full"]), t.get("span")))
    return sorted(set(sites)), bodies_with_cache


def run(res, f, tier):
    obligations = discharged = 0

    def ob(ok, key, what, detail=None):
        nonlocal obligations, discharged
        obligations += 1
        if ok:
            discharged += 1
        else:
            res.violation(key, what, detail)

    import anchors
    A = anchors.resolve(f)
    SH = A["short"]
    uf_call = A["uf_call"]
    paths, it = evalsum.run_async_fn(f, uf_call, ["self", "name", "param", "cache"])
    LOOK = "BTreeMap::get(self.functions, name)"
    F = "BTreeMap::get!(self.functions, name)"
    CACHEABLE = "dyn UserFunction::cacheable(%s)" % F
    USERCALL = "dyn UserFunction::call(%s, param)" % F
    classes = {"unknown": [], "nocache": [], "hit": [], "miss": []}
    keys_get, keys_ins = set(), set()
    raw_keys = []
    for s, rv in paths:
        conds = dict(norm_cond(c) for c in s.conds)
        calls = calls_of(s)
        ret = show(norm(it.resolve(s, rv)))
        is_cache = lambda x: x == "cache" or x.startswith("cache.")    # the map itself or the map inside a wrapper struct
        # the entry API in terms of get / insert (std): entry(k) Occupied <=> get(k) is Some; occupied.get() is that
        # value; vacant.insert(v) == insert(k, v)
        for c_ in list(calls):
            if c_[1] == "BTreeMap::entry" and len(c_) == 4 and is_cache(c_[2]):
                M_, K_ = c_[2], c_[3]
                E_ = "BTreeMap::entry(%s, %s)" % (M_, K_)
                G_ = "BTreeMap::get(%s, %s)" % (M_, K_)
                if E_ in conds:
                    conds[G_] = "ok" if conds.pop(E_) == "is Occupied" else "fails"
                new_calls = []
                for x in calls:
                    if x == c_:
                        new_calls.append(("call", "BTreeMap::get", M_, K_))
                    elif x[1] == "OccupiedEntry::get" and x[2:] == (E_ + ".Occupied.0",):
                        continue
                    elif x[1] == "VacantEntry::insert" and len(x) == 4 and x[2] == E_ + ".Vacant.0":
                        new_calls.append(("call", "BTreeMap::insert", M_, K_, x[3]))
                    else:
                        new_calls.append(x)
                calls = new_calls
                ret = ret.replace("OccupiedEntry::get(%s.Occupied.0)" % E_, "BTreeMap::get!(%s, %s)" % (M_, K_))
                for e in s.events:
                    if e[0] == "call" and short_callee(e[1]) == "BTreeMap::entry" and is_cache(show(norm(e[2][0]))):
                        raw_keys.append(norm(e[2][1]))
        gets = [c for c in calls if c[1] == "BTreeMap::get" and is_cache(c[2])]
        ins = [c for c in calls if c[1] == "BTreeMap::insert" and is_cache(c[2])]
        ucalls = [c for c in calls if c[1] == "dyn UserFunction::call"]
        for e in s.events:
            if e[0] == "call" and short_callee(e[1]) == "BTreeMap::get" and is_cache(show(norm(e[2][0]))):
                raw_keys.append(norm(e[2][1]))
        for g in gets:
            keys_get.add(g[3])
        for i_ in ins:
            keys_ins.add(i_[3])
        rec = {"conds": conds, "calls": calls, "ret": ret, "gets": gets, "ins": ins, "ucalls": ucalls}
        if conds.get(LOOK) == "fails":
            classes["unknown"].append(rec)
        elif conds.get(CACHEABLE) == "val 0":
            classes["nocache"].append(rec)
        elif gets and conds.get("BTreeMap::get(%s, %s)" % (gets[0][2], gets[0][3])) == "ok":
            classes["hit"].append(rec)
        else:
            classes["miss"].append(rec)
    res.floor("paths of UserFunctions::call", len(paths), 4)
    # 1. lookup by name
    ob(len(classes["unknown"]) == 1 and classes["unknown"][0]["ret"] == "Err(UnknownUserFunction(name))" and not classes["unknown"][0]["ucalls"],
       "C11|lookup", "an unknown function name must give UnknownUserFunction(name) without calling anything: %s" % [r["ret"] for r in classes["unknown"]])
    every = classes["nocache"] + classes["hit"] + classes["miss"]
    ob(all(r["conds"].get(LOOK) == "ok" for r in every) and all(c == ("call", "dyn UserFunction::call", F, "param") for r in every for c in r["ucalls"]),
       "C11|right-function", "the function called must be the one registered under `name`, with the argument passed through unmodified",
       {"user_calls": sorted(set(c for r in every for c in r["ucalls"]))})
    # 2. bypass when not cacheable
    ob(len(classes["nocache"]) == 2 and all(not r["gets"] and not r["ins"] and len(r["ucalls"]) == 1 for r in classes["nocache"]),
       "C11|bypass", "a function that declares itself non-cacheable must be invoked on every call and never touch the cache",
       {"paths": [(r["ret"], r["gets"], r["ins"]) for r in classes["nocache"]]})
    ob(all(CACHEABLE in r["conds"] for r in every), "C11|asks-cacheable", "every call must consult the function's own cacheable() flag")
    # 3. same key for get and insert, built from the name and the whole argument only
    ob(len(keys_get) == 1 and keys_ins <= keys_get and len(keys_ins) == 1, "C11|same-key", "cache get and insert must use the same key: get %s insert %s" % (sorted(keys_get), sorted(keys_ins)))
    key_ok = bool(raw_keys)
    why = ""
    for k in raw_keys[:1]:
        lv = leaves(k)
        names = set(l for l, _ in lv if not (l.startswith("'") or l.startswith("b'") or l.startswith('b"') or l.lstrip("-").isdigit() or l.startswith("<")))
        if names != {"name", "param"}:
            key_ok, why = False, "key depends on %s (must be exactly the function name and the argument)" % sorted(names)
        for l, parent in lv:
            if l == "param" and parent == "Argument::new_display":
                key_ok, why = False, ("the argument enters the key through its Display rendering, which is not injective on values "
                                      "(untyped / unquoted map keys, no variant tags); the derived Debug rendering is required")
            elif l == "param" and parent != "Argument::new_debug":
                key_ok, why = False, "the argument enters the key through %s, not as a whole" % parent
            if l == "name" and parent not in ("Argument::new_debug", "Argument::new_display"):
                key_ok, why = False, "the name enters the key through %s" % parent
    dbg = [i for i in f.impls if i.get("trait") == "std::fmt::Debug" and i["self_s"] == "value::Value"]
    if not (len(dbg) == 1 and dbg[0]["derived"]):
        key_ok, why = False, "Debug for Value is not the compiler-derived structural rendering"
    ob(key_ok, "C11|key-content", "the cache key must be a rendering of (name, whole argument): %s" % why, {"key": show(raw_keys[0]) if raw_keys else None})
    # 4. hit: no call, stored value returned;  miss: call, insert only after success, value returned
    K = next(iter(keys_get)) if keys_get else "?"
    CM = next((r["gets"][0][2] for r in every if r["gets"]), "cache")     # how this tree spells the map object
    ob(len(classes["hit"]) == 1 and not classes["hit"][0]["ucalls"] and not classes["hit"][0]["ins"] and classes["hit"][0]["ret"] == "Ok(BTreeMap::get!(%s, %s))" % (CM, K),
       "C11|hit", "a cache hit must return the stored value without invoking the function", {"paths": [(r["ret"], r["ucalls"]) for r in classes["hit"]]})
    AW = "await(%s)" % USERCALL
    okp = [r for r in classes["miss"] if r["conds"].get(AW) == "is Ok"]
    erp = [r for r in classes["miss"] if r["conds"].get(AW) == "is Err"]
    ob(len(okp) == 1 and len(okp[0]["ucalls"]) == 1 and okp[0]["ins"] == [("call", "BTreeMap::insert", CM, K, AW + ".Ok.0")] and okp[0]["ret"] == "Ok(%s.Ok.0)" % AW
       and okp[0]["calls"].index(okp[0]["ucalls"][0]) < okp[0]["calls"].index(okp[0]["ins"][0]),
       "C11|miss-ok", "on a miss the function is called once, its successful result stored under the key and returned", {"paths": [(r["ret"], r["ins"]) for r in okp]})
    ob(len(erp) == 1 and not erp[0]["ins"], "C11|failures-not-cached", "a failed call must not be remembered", {"paths": [(r["ret"], r["ins"]) for r in erp]})
    # 5. error wrapping (both the cached and the uncached route)
    errs = [r["ret"] for r in every if r["conds"].get(AW) == "is Err"]
    uerr = f.adts["error::Error"]
    var = next(v for v in uerr["variants"] if v["name"] == "UserFunctionError")
    vals = {"function": "name", "error": AW + ".Err.0"}
    want = "Err(UserFunctionError(%s))" % ", ".join(vals.get(fl["name"], "?") for fl in var["fields"])
    ob(len(errs) == 2 and all(e == want for e in errs), "C11|error-wrapping", "a user function's failure must surface as UserFunctionError{function: name, error: the original error}: %s" % errs)
    # 6. lifetime of the cache: created per evaluation call, threaded downwards unchanged
    # every hop of the route context -> (ruleset ->) function table hands on the name, the argument and the cache it
    # was given (the context hands on its own cache field)
    rs_call = A["rs_call"]
    ctx_call = A["ctx_call"]
    ctx_adt = f.adts.get(A["ctx_type"].split("<")[0])
    cache_fields = [fl["name"] for fl in (ctx_adt["variants"][0]["fields"] if ctx_adt else []) if re.sub(r"'\w+ ", "", fl["ty_s"]) in (CACHE_REF_OF(f, uf_call), CACHE_REF_OF(f, uf_call)[5:])]
    route = list(A["call_route"])
    for caller, callee in zip(route, route[1:]):
        b_ = f.bodies[caller]
        argn = []
        for i in range(1, b_["arg_count"] + 1):
            t_ = f.ty_s(b_["locals"][i]["ty"])
            argn.append("self" if i == 1 else ("name" if t_ == "&str" else ("params" if t_ == "value::Value" else ("cache" if t_.startswith("&mut ") else "a%d" % i))))
        pth, _it = evalsum.run_async_fn(f, caller, argn, opaque=lambda p, callee=callee: p == callee)
        cs = [[c for c in calls_of(s_) if c[1] == short_callee(callee)] for s_, _ in pth]
        own_cache = ["cache"] if "cache" in argn else ["self.%s" % n_ for n_ in cache_fields]
        # on every path at most one call, always with the caller's own name / argument / cache; at least one path calls
        # (a path that fails before calling — no ruleset, unknown function — is fine)
        calling = [c_ for c_ in cs if c_]
        good = bool(calling) and all(len(c_) == 1 and list(c_[0][3:]) in [["name", "params", oc] for oc in own_cache] for c_ in calling)
        ob(good, "C11|thread|%s" % short_callee(caller),
           "%s must hand the name, the argument and the cache it was given on to %s unchanged: %s" % (short_callee(caller), short_callee(callee), cs))
    # ---- where the cache comes from and how long it lives (whatever the architecture): interprocedural taint from every
    # place that creates a value of the cache type to the cache parameter of the function table (rules/cacheflow.py)
    import cacheflow
    CR_ = CACHE_REF_OF(f, uf_call)
    CM_ = CR_[5:]
    ctypes = {CR_, CM_} | ({"&" + CM_} if CM_ in f.adts else set())
    ev_value = find1(f, lambda d, b: b["name"] == "evaluate_value" and (b.get("impl") or {}).get("self_s") == "ruleset::RuleSet", "RuleSet::evaluate_value")
    ev_any = find1(f, lambda d, b: b["name"] == "evaluate" and (b.get("impl") or {}).get("self_s") == "ruleset::RuleSet", "RuleSet::evaluate")
    expr_eval = A["expr_eval"]
    reach = evalsum.reachable_mono(f, [ev_value, ev_any, expr_eval])
    creations, touched = cacheflow.analyse(f, uf_call, ctypes, [ev_value, expr_eval], reach)
    feeding = [c for c in creations if c["reaches_consumer"]]
    per_iter = [c for c in feeding if c["in_loop"] or c["under_loop"]]
    ob(not per_iter, "C11|cache-per-evaluation",
       "a function cache is created inside a loop, or in a function that is called from inside a loop (per rule / per call instead of once per evaluation): %s"
       % [(c["fn"], c["span"]) for c in per_iter], {"creations": [(c["fn"], c["span"], c["callee"]) for c in feeding]})
    for E, what in ((ev_value, "evaluate_value"), (expr_eval, "Expr::evaluate")):
        local_reach = set(evalsum.reachable_local(f, [E]))
        mine = [c for c in feeding if c["root"] in local_reach]
        ob(len(mine) >= 1, "C11|fresh|%s" % what, "%s must start from a cache created during that call (nothing is remembered from one evaluation to the next): "
           "no creation of a cache that reaches the function table is found below it" % what, {"creations_below": [(c["fn"], c["span"]) for c in mine]})
    # no other function hands out or stores a cache: the only calls of UserFunctions::call / creations feeding it are the ones above
    callers = set()
    for d, b in f.bodies.items():
        for blk in b["blocks"]:
            t = blk["term"]
            if t["k"] == "call":
                from mir import callee_of
                c = callee_of(t)
                if c and (c.get("resolved") or c["path"]) == uf_call:
                    callers.add(b.get("parent") or d)
    ob(callers == {route[-2]}, "C11|single-route", "UserFunctions::call must be reached only through %s: %s" % (short_callee(route[-2]), sorted(callers)))
    # who may touch the cache: outside UserFunctions::call the cache object is only handed on to crate-local functions;
    # no other body reads or writes it (a second, differently keyed use of the same map breaks "per argument")
    exempt = helpers_of(f, uf_call)
    touch = sorted(set("%s calls %s at %s" % (d_, short_callee(c_), sp_) for d_, c_, sp_ in touched if cacheflow.root_of(f, d_) not in exempt))
    ob(not touch, "C11|cache-access", "the function cache is read or written outside UserFunctions::call: %s" % touch[:4], {"sites": touch[:10]})
    if not feeding:
        raise Inconclusive("no creation of a cache reaches the function table (the cache object was not found)")
    res.coverage = {
        "explanation": "All %d paths of UserFunctions::call's coroutine body were enumerated with their ordered cache/user calls and conditions and checked against the "
                       "transparency rules; the cache object's route from its two creation sites down to UserFunctions::call was checked function by function." % len(paths),
        "obligations": obligations, "discharged": discharged, "paths": len(paths),
        "cache_key": show(raw_keys[0]) if raw_keys else None,
        "rule": "lookup-by-name, bypass, same-key, key-content, hit, miss, failures-not-cached, error-wrapping, cache threading/freshness",
        "samples": [{"class": k, "result": r["ret"], "cache_calls": [" ".join(c[1:3]) for c in r["gets"] + r["ins"]], "user_calls": len(r["ucalls"])} for k, v in classes.items() for r in v],
        "exhaustive": True,
    }
    res.assumptions = ["the rendering \"{name}-{param:?}\" is injective on (name, argument) for the values in use (depends on Debug of Value / Decimal / chrono types and on names without the separator) — not decided",
                       "BTreeMap get/insert semantics (std)"]
