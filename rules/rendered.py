"""Is the rendering of a sub-term rewritten on its way to the output?

The text a printer obtains by displaying a sub-term (`{child}` in a template, `child.to_string()`, `ToString::to_string`
mapped over the children) contains that sub-term's string literals verbatim: their content is data.  A printer that
passes such text through a content-rewriting function — `replace`, `replacen`, a case conversion, `retain`, `remove`,
`replace_range` — before writing it changes what some string literal inside it says, and the output parses back to a
different tree.  (Re-indenting nested renderings with `item.replace('\\n', "\\n  ")` is the realistic form.)

An interprocedural, flow- and field-insensitive forward taint over the MIR of the bodies reachable from the Display
impls of the printer types:
  seeds        `Argument::new_display::<T>(..)`, `<T as ToString>::to_string(..)` for a printer type T (behind any
               references / boxes), and every call of an upstream function instantiated with the fn item
               `<T as ToString>::to_string` (an iterator adaptor that yields renderings);
  flow         moves, copies, borrows, casts, aggregates; argument -> parameter and return value of crate-local
               functions; an upstream call with a tainted argument has a tainted result, hands the taint to the
               parameters of a closure passed in the same call, and yields the closure's result when that is tainted;
  discipline   only locals whose type can hold text (strings, collections / options / iterators of them, closures,
               format arguments) are ever tainted;
  sinks        the receiver of a content-rewriting `str` / `String` method.
Text that is *raw data* (the payload of a string value being escaped) is never a seed, so escaping it is not reported.
"""
import re

from mir import callee_of

REWRITERS = ("replace", "replacen", "to_lowercase", "to_uppercase", "to_ascii_lowercase", "to_ascii_uppercase",
             "make_ascii_lowercase", "make_ascii_uppercase", "retain", "remove", "remove_matches", "replace_range")
_SINK = re.compile(r"(?:<impl str>|(?<![\w])String)::(%s)(?:::<.*>)?$" % "|".join(REWRITERS))
_TEXTUAL = ("String", "str", "Cow<", "fmt::Arguments", "fmt::rt::Argument", "closure@", "iter::", "Iter<", "IntoIter<", " fn(")


def _strip_refs(t):
    t = re.sub(r"'\w+ ", "", t.strip())
    while True:
        if t.startswith("&mut "):
            t = t[5:]
        elif t.startswith("&"):
            t = t[1:]
        elif t.startswith("std::boxed::Box<") and t.endswith(">"):
            t = t[len("std::boxed::Box<"):-1]
        else:
            return t.strip()


def region(f, roots):
    """crate-local bodies reachable from `roots` (closures and coroutine bodies included)"""
    seen, work = set(), list(roots)
    while work:
        d = work.pop()
        if d in seen or d not in f.bodies:
            continue
        seen.add(d)
        for p, b in f.bodies.items():
            if b.get("parent") == d:
                work.append(p)
        for blk in f.bodies[d]["blocks"]:
            t = blk["term"]
            if t["k"] == "call":
                c = callee_of(t)
                q = c and (c.get("resolved") or c["path"])
                if q in f.bodies:
                    work.append(q)
    return seen


def analyse(f, roots, printer_types):
    """-> (findings [(fn, callee, span)], stats)"""
    bodies = {d: f.bodies[d] for d in region(f, roots)}
    tys = {d: [f.ty_s(l["ty"]) for l in b["locals"]] for d, b in bodies.items()}
    pt = set(printer_types)

    # generic helpers (`fn write_list<T: Display>(items: &[T])`): a type parameter is a printer type in a body that the
    # region instantiates with one
    with_printer = set()
    for d, b in bodies.items():
        for blk in b["blocks"]:
            t = blk["term"]
            if t["k"] == "call":
                c = callee_of(t) or {}
                q = c.get("resolved") or c.get("path")
                m = re.search(r"::<(.*)>$", c.get("full", ""))
                if q in bodies and m and any(re.search(r"(?<![\w:])%s(?![\w:])" % re.escape(p), m.group(1)) for p in pt):
                    with_printer.add(q)
    for d, b in bodies.items():
        if b.get("parent") in with_printer:
            with_printer.add(d)

    def is_printer(t, d=None):
        t = _strip_refs(t)
        return t in pt or (d in with_printer and re.match(r"^[A-Z][A-Za-z0-9]*$", t) is not None)

    def capable(ts):
        if not any(k in ts for k in _TEXTUAL):
            return False
        # a reference to / collection of printer nodes is the tree, not text (iterator adaptors and closures mention it too)
        if any(p in ts for p in pt) and not any(k in ts for k in ("closure@", "iter::", "Iter<", "IntoIter<", " fn(", "fmt::")):
            return False
        return True

    def generic_arg(full, name):
        # the T of `...::name::<T>` / `<T as Trait>::name`
        if full.startswith("<") and full.endswith("::" + name):
            m = re.match(r"<(.*) as [^>]*>::%s$" % name, full)
            return m.group(1) if m else None
        m = re.search(r"::%s::<(.*)>$" % name, full)
        return m.group(1) if m else None

    fnref_seed = re.compile(r"\{<(?:&|std::boxed::Box<)*(%s)>* as std::string::ToString>::to_string\}" % "|".join(re.escape(p) for p in pt))

    tainted, returns = set(), set()
    seeds = []
    closure_def = {}   # (body, local) -> closure def
    for d, b in bodies.items():
        for blk in b["blocks"]:
            for st in blk["stmts"]:
                if st["k"] == "assign" and st["rv"]["k"] == "agg" and st["rv"].get("ak") == "closure" and not st["place"]["p"]:
                    closure_def[(d, st["place"]["l"])] = st["rv"]["def"]

    def closure_of(d, a):
        """closure body behind an argument operand (the closure value, or a copy / borrow of it within the body)"""
        if a["k"] not in ("move", "copy"):
            return None
        l = a["place"]["l"]
        for _ in range(4):
            if (d, l) in closure_def:
                return closure_def[(d, l)]
            nxt = None
            for blk in bodies[d]["blocks"]:
                for st in blk["stmts"]:
                    if st["k"] == "assign" and not st["place"]["p"] and st["place"]["l"] == l:
                        rv = st["rv"]
                        if rv["k"] in ("use", "cast") and rv.get("op", {}).get("k") in ("move", "copy"):
                            nxt = rv["op"]["place"]["l"]
                        elif rv["k"] == "ref":
                            nxt = rv["place"]["l"]
            if nxt is None:
                return None
            l = nxt
        return None

    def taint(d, l):
        if (d, l) in tainted or d not in tys or l >= len(tys[d]) or not capable(tys[d][l]):
            return False
        tainted.add((d, l))
        return True

    changed = True
    rounds = 0
    findings = {}
    while changed and rounds < 60:
        changed = False
        rounds += 1
        for d, b in bodies.items():
            for blk in b["blocks"]:
                if blk["cleanup"]:
                    continue
                for st in blk["stmts"]:
                    if st["k"] != "assign":
                        continue
                    rv = st["rv"]
                    srcs = []
                    if rv["k"] in ("use", "cast") and rv.get("op", {}).get("k") in ("move", "copy"):
                        srcs.append(rv["op"]["place"]["l"])
                    elif rv["k"] in ("ref", "rawptr"):
                        srcs.append(rv["place"]["l"])
                    elif rv["k"] == "agg":
                        srcs += [o["place"]["l"] for o in rv.get("ops", []) if o.get("k") in ("move", "copy")]
                    if any((d, s) in tainted for s in srcs) and taint(d, st["place"]["l"]):
                        changed = True
                t = blk["term"]
                if t["k"] != "call":
                    continue
                c = callee_of(t) or {}
                full = c.get("resolved_full") or c.get("full", "")
                q = c.get("resolved") or c.get("path")
                dest = t["dest"]["l"] if t.get("dest") else None
                args = t["args"]
                targs = [j for j, a in enumerate(args) if a["k"] in ("move", "copy") and (d, a["place"]["l"]) in tainted]
                # ---- seeds
                seed = False
                if full.endswith("::to_string") and full.startswith("<") and is_printer(generic_arg(full, "to_string") or "", d):
                    seed = True
                elif "Argument::<'_>::new_display::<" in full or "Argument::new_display::<" in full:
                    m = re.search(r"new_display::<(.*)>$", full)
                    if m and is_printer(m.group(1), d):
                        seed = True
                elif q not in bodies and fnref_seed.search(full):
                    seed = True
                if seed and dest is not None:
                    if (d, dest) not in tainted:
                        seeds.append((d, full))
                    if taint(d, dest):
                        changed = True
                # ---- sinks
                m = _SINK.search(re.sub(r"::<[^<>]*>$", "", full)) if q not in bodies else None
                if m and 0 in targs:
                    findings[(d, m.group(1), t.get("span"))] = full
                # ---- flow through the call
                if q in bodies:
                    for j in targs:
                        if taint(q, j + 1):
                            changed = True
                    if q in returns and dest is not None and taint(d, dest):
                        changed = True
                else:
                    closures = [closure_of(d, a) for a in args]
                    closures = [cd for cd in closures if cd in bodies]
                    if targs:
                        if dest is not None and taint(d, dest):
                            changed = True
                        for cd in closures:
                            for l in range(2, bodies[cd]["arg_count"] + 1):
                                if taint(cd, l):
                                    changed = True
                    if any(cd in returns for cd in closures) and dest is not None and taint(d, dest):
                        changed = True
            if (d, 0) in tainted and d not in returns:
                returns.add(d)
                changed = True
    out = sorted((d, name, span, full) for (d, name, span), full in findings.items())
    stats = {"bodies": len(bodies), "seed_sites": len(set(seeds)), "tainted_locals": len(tainted), "rounds": rounds,
             "functions_returning_rendered_text": sorted(returns)}
    return out, stats
