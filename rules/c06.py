"""C06 — parsing any text returns a tree or a parse error, never a panic.

Scope split by provenance of the code reachable (monomorphic call graph) from Expr::parse / Rule::parse:
 (i) user-written code — grammar actions, literal helpers, unescape, RuleBuilder, Expr constructors — is
     analysed: no panic site, no lossy cast; string slicing is admitted only with an obligation discharged
     against the regex of the one token whose action calls the helper;
 (ii) the LR automaton lalrpop generates and its runtime (lalrpop_util, regex-automata) are trusted and counted."""
import re

import evalsum
import grammar
import hazards
import lexre
import monoreach
from framework import Inconclusive
from mir import callee_of

LEVEL = "other"

GENERATED = re.compile(r"::__parse__|::__intern_token|__ToTriple|::__lalrpop_util")


def run(res, f, tier):
    roots = evalsum.find_by_name(f, "parse", "expr::Expr") + evalsum.find_by_name(f, "parse", "ruleset::rule::Rule")
    if len(roots) != 2:
        raise Inconclusive("Expr::parse / Rule::parse not found: %s" % roots)
    local, ninst, nroots = monoreach.reachable_local(f, roots)
    if nroots != 2:
        raise Inconclusive("parse entry points missing from the instance graph")
    generated = [p for p in local if GENERATED.search(p)]
    user = [p for p in local if not GENERATED.search(p) and p in f.bodies]
    actions = [p for p in user if re.search(r"::__action\d+$", p)]
    res.floor("instances reachable from the parse entry points", ninst, 2500)
    res.floor("grammar action functions reachable", len(actions), 90)
    res.floor("user-written parser bodies", len(user), 120)
    g = grammar.load(f)
    lx = lexre.Lexer(g["table"])
    tok = g["terminal_token"]
    # helper -> terminals whose action passes the token text to it
    helper_terms = {}
    action_helper = {}
    for p in g["prods"]:
        if p["term"]:
            for _, t in p["term"]:
                for m in re.finditer(r"helpers::(\w+)!\(\$(\d+)\)", t):
                    h = "parse::helpers::" + m.group(1)
                    sym = p["rhs"][int(m.group(2))] if int(m.group(2)) < len(p["rhs"]) else None
                    helper_terms.setdefault(h, set()).add(sym)
                    action_helper.setdefault(h, set()).add(p["action"])
    # a helper may hand its token text on, unchanged, to a shared inner helper (parse_hex -> parse_radix(text, 16)):
    # the inner helper is then fed by the same tokens
    wrapper_callers = {}
    work = list(helper_terms)
    while work:
        h = work.pop()
        b = f.bodies.get(h)
        if not b or not b["arg_count"]:
            continue
        alias = {1}
        grew = True
        while grew:
            grew = False
            for blk in b["blocks"]:
                for st_ in blk["stmts"]:
                    if st_["k"] != "assign" or st_["place"]["p"]:
                        continue
                    rv = st_["rv"]
                    src = None
                    if rv["k"] == "use" and rv["op"]["k"] in ("copy", "move"):
                        src = rv["op"]["place"]
                    elif rv["k"] == "ref":
                        src = rv["place"]
                    if src is not None and src["l"] in alias and all(e[0] == "deref" for e in src["p"]) and st_["place"]["l"] not in alias:
                        alias.add(st_["place"]["l"])
                        grew = True
        for blk in b["blocks"]:
            t = blk["term"]
            if t["k"] != "call":
                continue
            c = callee_of(t)
            q = c and (c.get("resolved") or c["path"])
            if not q or q not in f.bodies or q == h or not q.startswith("parse::"):
                continue
            if t["args"] and t["args"][0]["k"] in ("copy", "move") and t["args"][0]["place"]["l"] in alias and not t["args"][0]["place"]["p"]:
                before = (set(helper_terms.get(q, ())), set(wrapper_callers.get(q, ())))
                helper_terms.setdefault(q, set()).update(helper_terms[h])
                wrapper_callers.setdefault(q, set()).add(h)
                if (set(helper_terms[q]), set(wrapper_callers[q])) != before:
                    work.append(q)
    obligations = discharged = 0
    nsites = 0
    counts = {}
    slicing = []

    def ob(ok, key, what, detail=None):
        nonlocal obligations, discharged
        obligations += 1
        if ok:
            discharged += 1
        else:
            res.violation(key, what, detail)

    for p in user:
        b = f.bodies[p]
        hz = hazards.sites(f, b)
        pending_sub = [s for s in hz if s["kind"] == "assert" and s["detail"].startswith("Overflow(Sub)")]
        slices = [s for s in hz if s["kind"] == "call" and s["detail"] in ("str::index",) or (s["kind"] == "call" and s.get("full", "").startswith("core::str::traits::<impl std::ops::Index"))]
        for s in hz:
            nsites += 1
            counts[s["cls"]] = counts.get(s["cls"], 0) + 1
            if s["cls"] not in ("partial", "silent"):
                continue
            if s in slices or (s in pending_sub and slices):
                continue   # handled below as a slicing obligation
            ob(False, hazards.key("C06", p, s), "%s in %s at %s: %s" % (s["detail"], p, s["span"], s["reason"]), {"site": s})
        if slices:
            # offsets from the helper's own summary
            outs, it = evalsum.summarize_fn(f, p, arg_names=["value"], opaque=lambda q: q.startswith("parse::unescape"))
            text = " ".join(r for _, r, _, _ in outs)
            m = re.search(r"str::index\(value, RangeFrom\((\d+)\)\)", text)
            m2 = re.search(r"str::index\(value, Range\((\d+), Sub\(str::len\(value\), (\d+)\)\)\)", text)
            if m:
                front, back = int(m.group(1)), 0
            elif m2:
                front, back = int(m2.group(1)), int(m2.group(2))
            else:
                ob(False, "C06|slice|%s" % p, "string slicing in %s whose bounds are not constant offsets of the token text" % p, {"summary": text[:300]})
                continue
            terms = helper_terms.get(p, set())
            if not terms or None in terms:
                ob(False, "C06|slice|%s" % p, "slicing helper %s is not fed by a token of the grammar" % p)
                continue
            for T in sorted(terms):
                if T not in tok:
                    ob(False, "C06|slice|%s|%s" % (p, T), "slicing helper %s receives %s, which is not a token" % (p, T))
                    continue
                ast = lx.asts[tok[T]]
                pre, _ = lexre.literal_prefix(ast)
                suf, _ = lexre.literal_suffix(ast)
                # every lexeme is long enough and its first `front` / last `back` characters are single-byte (ASCII),
                # so the byte offsets are in range and on character boundaries
                anyc = ("lit", [(0, 0xD7FF), (0xE000, 0x10FFFF)])
                ascii_ = ("lit", [(0, 127)])
                shape = ("cat", [ascii_] * front + [("star", anyc)] + [ascii_] * back)
                inc, w = lexre.included(ast, shape)
                ok = lexre.min_len(ast) >= front + back and inc
                ob(ok, "C06|slice|%s|%s" % (p, T),
                   "slice [%d..len-%d] of a %s lexeme in %s can be out of bounds or off a character boundary (token regex: min length %d, fixed prefix %r, fixed suffix %r)"
                   % (front, back, T, p, lexre.min_len(ast), "".join(map(chr, pre)), "".join(map(chr, suf))))
                slicing.append({"helper": p, "token": T, "strip_front": front, "strip_back": back, "regex": g["table"][tok[T]][0][:50],
                                "min_len": lexre.min_len(ast), "prefix": "".join(map(chr, pre))})
            # who may call: only the actions of those terminals
            callers = set()
            for d, b2 in f.bodies.items():
                for blk in b2["blocks"]:
                    t = blk["term"]
                    if t["k"] == "call":
                        c = callee_of(t)
                        if c and (c.get("resolved") or c["path"]) == p:
                            callers.add(d)
            allowed = set("parse::reval::__action%d" % a for a in action_helper.get(p, ())) | wrapper_callers.get(p, set())
            ob(callers <= allowed, "C06|slice-callers|%s" % p, "slicing helper %s is also called from %s, where the argument is not a token of the discharging regex" % (p, sorted(callers - allowed)))
    res.floor("slicing obligations", len(slicing), 4)
    import control
    controls = control.hazard_controls()
    res.coverage = {
        "positive_controls": controls,
        "explanation": "monomorphic reachability from Expr::parse / Rule::parse: %d instances, %d crate-local bodies = %d user-written (of which %d grammar actions) + %d generated-automaton "
                       "bodies (trusted). %d hazard-relevant sites of the user-written bodies classified; %d slicing obligations discharged against token regexes."
                       % (ninst, len(local), len(user), len(actions), len(generated), nsites, len(slicing)),
        "obligations": obligations, "discharged": discharged, "site_classes": counts,
        "trusted_generated_bodies": len(generated),
        "rule": "no partial/silent site in user-written parser code; slicing offsets covered by the calling token's regex; slicing helpers called only from those actions",
        "samples": slicing,
        "exhaustive": True,
    }
    res.assumptions = ["the LR automaton generated by lalrpop 0.22.2 and the lalrpop_util / regex-automata runtime do not panic on any input (trusted, %d bodies counted)" % len(generated),
                       "spec/callees.py classification; unclassified callees assumed total"]
