"""C06 — parsing any text returns a tree or a parse error, never a panic.

Scope split by provenance of the code reachable (monomorphic call graph) from Expr::parse / Rule::parse:
 (i) user-written code — grammar actions, literal helpers, unescape, RuleBuilder, Expr constructors — is
     analysed: no panic site, no lossy cast; string slicing is admitted only with an obligation discharged
     against the regex of the one token whose action calls the helper;
 (ii) the LR automaton lalrpop generates and its runtime (lalrpop_util, regex-automata) are trusted and counted."""
import re

import evalsum
import grammar
import hazards
import lexre
import monoreach
from framework import Inconclusive
from mir import callee_of

LEVEL = "other"

GENERATED = re.compile(r"::__parse__|::__intern_token|__ToTriple|::__lalrpop_util")


def run(res, f, tier):
    roots = evalsum.find_by_name(f, "parse", "expr::Expr") + evalsum.find_by_name(f, "parse", "ruleset::rule::Rule")
    if len(roots) != 2:
        raise Inconclusive("Expr::parse / Rule::parse not found: %s" % roots)
    local, ninst, nroots = monoreach.reachable_local(f, roots)
    if nroots != 2:
        raise Inconclusive("parse entry points missing from the instance graph")
    generated = [p for p in local if GENERATED.search(p)]
    user = [p for p in local if not GENERATED.search(p) and p in f.bodies]
    actions = [p for p in user if re.search(r"::__action\d+$", p)]
    res.floor("instances reachable from the parse entry points", ninst, 2500)
    res.floor("grammar action functions reachable", len(actions), 90)
    res.floor("user-written parser bodies", len(user), 120)
    g = grammar.load(f)
    lx = lexre.Lexer(g["table"])
    tok = g["terminal_token"]
    # helper -> terminals whose action passes the token text to it
    helper_terms = {}
    action_helper = {}
    spec_path = {"parse::helpers::" + n_: sp_[0] for n_, sp_ in g.get("spec_helpers", {}).items()}
    for p in g["prods"]:
        if p["term"]:
            for _, t in p["term"]:
                for m in re.finditer(r"helpers::(\w+)!\(\$(\d+)\)", t):
                    h = "parse::helpers::" + m.group(1)
                    sym = p["rhs"][int(m.group(2))] if int(m.group(2)) < len(p["rhs"]) else None
                    helper_terms.setdefault(h, set()).add(sym)
                    action_helper.setdefault(h, set()).add(p["action"])
    # a helper may hand its token text on, unchanged, to a shared inner helper (parse_hex -> parse_radix(text, 16)):
    # the inner helper is then fed by the same tokens
    wrapper_callers = {}
    work = list(helper_terms)
    while work:
        h = work.pop()
        b = f.bodies.get(h)
        if not b or not b["arg_count"]:
            continue
        alias = {1}
        grew = True
        while grew:
            grew = False
            for blk in b["blocks"]:
                for st_ in blk["stmts"]:
                    if st_["k"] != "assign" or st_["place"]["p"]:
                        continue
                    rv = st_["rv"]
                    src = None
                    if rv["k"] == "use" and rv["op"]["k"] in ("copy", "move"):
                        src = rv["op"]["place"]
                    elif rv["k"] == "ref":
                        src = rv["place"]
                    if src is not None and src["l"] in alias and all(e[0] == "deref" for e in src["p"]) and st_["place"]["l"] not in alias:
                        alias.add(st_["place"]["l"])
                        grew = True
        for blk in b["blocks"]:
            t = blk["term"]
            if t["k"] != "call":
                continue
            c = callee_of(t)
            q = c and (c.get("resolved") or c["path"])
            if not q or q not in f.bodies or q == h or not q.startswith("parse::"):
                continue
            if t["args"] and t["args"][0]["k"] in ("copy", "move") and t["args"][0]["place"]["l"] in alias and not t["args"][0]["place"]["p"]:
                before = (set(helper_terms.get(q, ())), set(wrapper_callers.get(q, ())))
                helper_terms.setdefault(q, set()).update(helper_terms[h])
                wrapper_callers.setdefault(q, set()).add(h)
                if (set(helper_terms[q]), set(wrapper_callers[q])) != before:
                    work.append(q)
    _reach = {}

    def reach_of(q):
        if q not in _reach:
            _reach[q] = set(evalsum.reachable_local(f, [q]))
        return _reach[q]

    callers_of = {}
    for d, b2 in f.bodies.items():
        for blk in b2["blocks"]:
            t = blk["term"]
            if t["k"] == "call":
                c = callee_of(t)
                if c:
                    callers_of.setdefault(c.get("resolved") or c["path"], set()).add(d)

    def balanced(text, open_at):
        depth = 0
        for j in range(open_at, len(text)):
            if text[j] == "(":
                depth += 1
            elif text[j] == ")":
                depth -= 1
                if depth == 0:
                    return text[open_at + 1:j]
        return text[open_at + 1:]

    obligations = discharged = 0
    nsites = 0
    counts = {}
    slicing = []

    def ob(ok, key, what, detail=None):
        nonlocal obligations, discharged
        obligations += 1
        if ok:
            discharged += 1
        else:
            res.violation(key, what, detail)

    for p in user:
        b = f.bodies[p]
        hz = hazards.sites(f, b)
        pending_sub = [s for s in hz if s["kind"] == "assert" and s["detail"].startswith("Overflow(Sub)")]
        slices = [s for s in hz if s["kind"] == "call" and s["detail"] in ("str::index",) or (s["kind"] == "call" and s.get("full", "").startswith("core::str::traits::<impl std::ops::Index"))]
        for s in hz:
            nsites += 1
            counts[s["cls"]] = counts.get(s["cls"], 0) + 1
            if s["cls"] not in ("partial", "silent"):
                continue
            if s in slices or (s in pending_sub and slices):
                continue   # handled below as a slicing obligation
            ob(False, hazards.key("C06", p, s), "%s in %s at %s: %s" % (s["detail"], p, s["span"], s["reason"]), {"site": s})
        # the slicing is judged in the context of every helper the grammar actions hand a token text to and from which
        # this function is reached: the helper is summarised with the called functions inlined (and with its constants,
        # when the actions call it with the token text and constants — `Literal::Int.parse(s)` is one helper per
        # constant), so the offsets are those applied to the token text whatever the factoring
        if slices:
            ctx = [h_ for h_ in sorted(helper_terms) if h_ in spec_path or h_ in f.bodies
                   if p in reach_of(spec_path.get(h_, h_))]
            if not ctx:
                ob(False, "C06|slice|%s" % p, "slicing helper %s is not fed by a token of the grammar" % p)
                continue
            for h in ctx:
                _, outs = grammar.helper_summary(f, g, h.split("::")[-1], opaque=lambda q: q.startswith("parse::unescape") and q != p and p not in reach_of(q))
                text = " ".join(r for _, r, _, _ in outs) + " " + " ".join(a_ for c_, _, _, _ in outs for a_, _ in c_)
                offs = set()
                bad_slice = None
                for m in re.finditer(r"str::index\(", text):
                    inner = balanced(text, m.end() - 1)
                    m1 = re.fullmatch(r"value, RangeFrom\((\d+)\)", inner)
                    m2 = re.fullmatch(r"value, Range\((\d+), Sub\(str::len\(value\), (\d+)\)\)", inner)
                    if m1:
                        offs.add((int(m1.group(1)), 0))
                    elif m2:
                        offs.add((int(m2.group(1)), int(m2.group(2))))
                    else:
                        bad_slice = inner
                if bad_slice is not None or not offs:
                    ob(False, "C06|slice|%s" % (h if h != p else p), "string slicing in %s (reached from %s) whose bounds are not constant offsets of the token text" % (p, h),
                       {"summary": text[:300], "slice": bad_slice})
                    continue
                terms = helper_terms.get(h, set())
                if not terms or None in terms:
                    ob(False, "C06|slice|%s" % h, "slicing helper %s is not fed by a token of the grammar" % h)
                    continue
                for front, back in sorted(offs):
                    for T in sorted(terms):
                        if T not in tok:
                            ob(False, "C06|slice|%s|%s" % (h, T), "slicing helper %s receives %s, which is not a token" % (h, T))
                            continue
                        ast = lx.asts[tok[T]]
                        pre, _ = lexre.literal_prefix(ast)
                        suf, _ = lexre.literal_suffix(ast)
                        # every lexeme is long enough and its first `front` / last `back` characters are single-byte (ASCII),
                        # so the byte offsets are in range and on character boundaries
                        anyc = ("lit", [(0, 0xD7FF), (0xE000, 0x10FFFF)])
                        ascii_ = ("lit", [(0, 127)])
                        shape = ("cat", [ascii_] * front + [("star", anyc)] + [ascii_] * back)
                        inc, w = lexre.included(ast, shape)
                        ok = lexre.min_len(ast) >= front + back and inc
                        ob(ok, "C06|slice|%s|%s" % (h, T),
                           "slice [%d..len-%d] of a %s lexeme in %s can be out of bounds or off a character boundary (token regex: min length %d, fixed prefix %r, fixed suffix %r)"
                           % (front, back, T, h, lexre.min_len(ast), "".join(map(chr, pre)), "".join(map(chr, suf))))
                        if not any(x["helper"] == h and x["token"] == T and x["strip_front"] == front and x["strip_back"] == back for x in slicing):
                            slicing.append({"helper": h, "token": T, "strip_front": front, "strip_back": back, "regex": g["table"][tok[T]][0][:50],
                                            "min_len": lexre.min_len(ast), "prefix": "".join(map(chr, pre))})
            # who may call: the functions between those helpers and the slicing are entered only through the helpers, and
            # the helpers only from the actions of those terminals
            region = {p}
            for h in ctx:
                real = spec_path.get(h, h)
                region.update(q for q in reach_of(real) if p in reach_of(q))
            allowed = region | set("parse::reval::__action%d" % a for h in ctx for a in action_helper.get(h, ()))
            for q in sorted(region):
                callers = callers_of.get(q, set())
                ob(callers <= allowed, "C06|slice-callers|%s" % q, "%s (which slices the token text, or hands it to %s for slicing) is also called from %s, where the argument is not a token of the discharging regex"
                   % (q, p, sorted(callers - allowed)))
    res.floor("slicing obligations", len(slicing), 4)
    import control
    controls = control.hazard_controls()
    res.coverage = {
        "positive_controls": controls,
        "explanation": "monomorphic reachability from Expr::parse / Rule::parse: %d instances, %d crate-local bodies = %d user-written (of which %d grammar actions) + %d generated-automaton "
                       "bodies (trusted). %d hazard-relevant sites of the user-written bodies classified; %d slicing obligations discharged against token regexes."
                       % (ninst, len(local), len(user), len(actions), len(generated), nsites, len(slicing)),
        "obligations": obligations, "discharged": discharged, "site_classes": counts,
        "trusted_generated_bodies": len(generated),
        "rule": "no partial/silent site in user-written parser code; slicing offsets covered by the calling token's regex; slicing helpers called only from those actions",
        "samples": slicing,
        "exhaustive": True,
    }
    res.assumptions = ["the LR automaton generated by lalrpop 0.22.2 and the lalrpop_util / regex-automata runtime do not panic on any input (trusted, %d bodies counted)" % len(generated),
                       "spec/callees.py classification; unclassified callees assumed total"]
