"""C07 — text is structured by one fixed precedence and associativity table.

G1 (all lengths): the grammar lalrpop generated (expanded BNF from the generated parser + action terms read
off the MIR of the action functions) and the grammar written from the property's table are normalised
(non-recursive nonterminals inlined) and compared up to renaming of nonterminals (bisimulation).  Equal
grammars generate the same sentences with the same trees; unambiguity is lalrpop's LR(1) check at build
time.  G2 (bounded, shape-agnostic): a suite of probe sentences (every operator pair, unary/binary/postfix
mixes, if-nesting, every atom form and alias, lists/maps, truncations) is parsed with both grammars by an
Earley parser; any disagreement is a witness.  G1 unequal and no G2 witness => pass, evidence says bounded."""
import itertools
import re

import cfg
import evalsum
import grammar
import precedence
from framework import Inconclusive

LEVEL = "proof"


def canon_term(outcomes):
    """canonical action term of a production from its TSS outcomes (see grammar.action_term)"""
    if outcomes is None:
        return "<no action>"
    if len(outcomes) == 1 and not outcomes[0][0]:
        t = outcomes[0][1]
    elif len(outcomes) == 2:
        ok = [o for o in outcomes if len(o[0]) == 1 and o[0][0][1] == "ok"]
        bad = [o for o in outcomes if len(o[0]) == 1 and o[0][0][1] == "fails"]
        if len(ok) == 1 and len(bad) == 1 and ok[0][0][0][0] == bad[0][0][0][0] and ok[0][1].startswith("Ok(") and bad[0][1].startswith("Err("):
            t = ok[0][1][3:-1]
        else:
            return "<value-dependent: %s>" % outcomes
    else:
        return "<value-dependent: %s>" % outcomes
    t = re.sub(r"helpers::\w+!\((\$\d+)\)", r"lit(\1)", t)
    t = re.sub(r"usize::from_str!\((\$\d+)\)", r"usize(\1)", t)
    t = re.sub(r"RuleBuilder::parse!\((.*)\)$", r"rule(\1)", t)
    t = t.replace("Vec::new()", "[]")
    t = re.sub(r"vec_of\((\$\d+)\)", r"[\1]", t)
    t = re.sub(r"push\((\$\d+), (\$\d+)\)", r"\1 ++ [\2]", t)
    t = re.sub(r"Chain::collect\(IntoIter::chain\(into_iter\((\$\d+|\[\])\), Some\((\$\d+)\)\)\)", r"\1 ++ [\2]", t)
    t = re.sub(r"Chain::collect\(IntoIter::chain\(into_iter\((\$\d+|\[\])\), Option::None\)\)", r"\1", t)
    # collecting a list's own iterator gives the list (Vec -> Vec; Vec<(K, V)> -> map with the same entries, last wins)
    prev = None
    while prev != t:
        prev = t
        t = re.sub(r"IntoIter::collect\(into_iter\((\$\d+|\[[^()]*\]|[^()]*(?:\([^()]*\)[^()]*)*)\)\)", r"\1", t)
    return cfg.simplify(t)


_helper_inline = {}


def small_helper_term(f, name):
    """ok-term of a parser helper that merely wraps a conversion of its text argument (no slicing), with `value`
    standing for the argument; None for the literal helpers (they stay `lit(..)`, their conversions are C08's)"""
    key = (getattr(f, "path", id(f)), name)
    if key in _helper_inline:
        return _helper_inline[key]
    out = None
    path = "parse::helpers::" + name
    b = f.bodies.get(path)
    if b and b["arg_count"] == 1:
        try:
            outs, _ = evalsum.summarize_fn(f, path, arg_names=["value"])
            ok = [o for o in outs if o[1].startswith("Ok(")]
            bad = [o for o in outs if o[1].startswith("Err(")]
            if len(ok) == 1 and len(bad) <= 1 and len(outs) == len(ok) + len(bad) and "str::index" not in ok[0][1] and len(ok[0][1]) < 90:
                out = ok[0][1][3:-1]
        except Exception:
            out = None
    _helper_inline[key] = out
    return out


def extracted_grammar(f):
    g = grammar.load(f)
    P = []
    for p in g["prods"]:
        if p["lhs"].startswith("__"):
            continue
        outcomes = p["term"]
        if outcomes:
            # a helper that only wraps a conversion is spelled out (so `parse_vec_index(r)?` and the inline
            # `usize::from_str(r)?` are the same action)
            def inline(m):
                t = small_helper_term(f, m.group(1))
                return t.replace("value", m.group(2)) if t else m.group(0)
            outcomes = [(c, re.sub(r"helpers::(\w+)!\((\$\d+)\)", inline, t)) for c, t in outcomes]
        P.append((p["lhs"], list(p["rhs"]), canon_term(outcomes)))
    return g, P


def reachable(P, starts):
    nts = cfg.nonterminals(P)
    seen = set()
    todo = list(starts)
    while todo:
        x = todo.pop()
        if x in seen or x not in nts:
            continue
        seen.add(x)
        for l, r, t in P:
            if l == x:
                todo.extend(r)
    return [(l, r, t) for l, r, t in P if l in seen]


def probes():
    a, b, c, d, e = (["IDENT"],) * 5
    atoms = [["IDENT"], ["STRING"], ["INT"], ["HEX_INT"], ["OCT_INT"], ["BIN_INT"], ["FLOAT"], ["DECIMAL"], ["TRUE"], ["FALSE"], ["KWD_NONE"],
             ["COLON", "IDENT"], ["LPAREN", "IDENT", "RPAREN"], ["IDENT", "LPAREN", "IDENT", "RPAREN"],
             ["LBRACKET", "RBRACKET"], ["LBRACKET", "IDENT", "RBRACKET"], ["LBRACKET", "IDENT", "COMMA", "RBRACKET"],
             ["LBRACKET", "IDENT", "COMMA", "INT", "RBRACKET"], ["LBRACKET", "IDENT", "COMMA", "INT", "COMMA", "RBRACKET"], ["LBRACKET", "COMMA", "RBRACKET"],
             ["LBRACE", "RBRACE"], ["LBRACE", "IDENT", "COLON", "INT", "RBRACE"], ["LBRACE", "IDENT", "COLON", "INT", "COMMA", "RBRACE"],
             ["LBRACE", "IDENT", "COLON", "INT", "COMMA", "IDENT", "COLON", "IDENT", "RBRACE"], ["LBRACE", "IDENT", "COLON", "INT", "COMMA", "IDENT", "COLON", "IDENT", "COMMA", "RBRACE"],
             ["LBRACE", "STRING", "COLON", "INT", "RBRACE"], ["LBRACE", "COMMA", "RBRACE"], ["INDEX"], ["IDENT", "IDENT"], ["DOT", "IDENT"]]
    for tok, _ in precedence.FUNCTIONS:
        atoms.append([tok, "LPAREN", "IDENT", "RPAREN"])
        atoms.append([tok, "LPAREN", "IDENT", "COMMA", "IDENT", "RPAREN"])
    for tok, _ in precedence.FUNCTIONS:
        atoms.append([tok])                       # a bare function keyword is not an expression (except `none`)
        atoms.append([tok, "LPAREN", tok, "RPAREN"])
    atoms.append(["KWD_INT", "IDENT"])
    atoms.append(["KWD_INT", "LPAREN", "RPAREN"])
    binops = [t for _, ops in precedence.BINARY_LEVELS for t, _ in ops] + ["KWD_CONTAINS", "KWD_IN"]
    unops = ["OP_SUB", "OP_NOT"]
    S = []
    S += atoms
    for o in binops:
        S.append(a + [o] + ["INT"])
        S.append(a + [o])
        S.append([o] + a)
    for o1, o2 in itertools.product(binops, repeat=2):
        S.append(["IDENT", o1, "INT", o2, "STRING"])
    for u in unops:
        S.append([u, "IDENT"])
        S.append([u, u, "IDENT"])
        S.append([u, "IDENT", "DOT", "IDENT"])
        S.append([u, "IDENT", "DOT", "INDEX"])
        S.append([u, "LPAREN", "IDENT", "RPAREN", "DOT", "IDENT"])
        for o in binops:
            S.append([u, "IDENT", o, "INT"])
            S.append(["IDENT", o, u, "INT"])
            S.append(["IDENT", o, "INT", "DOT", "IDENT"])
            S.append(["IDENT", "DOT", "IDENT", o, "INT"])
    S.append(["IDENT", "DOT", "IDENT", "DOT", "INDEX"])
    S.append(["IDENT", "DOT", "INDEX", "DOT", "IDENT"])
    S.append(["IDENT", "DOT", "INT"])
    S.append(["IDENT", "DOT", "KWD_INT"])
    IF = ["KWD_IF", "IDENT", "KWD_THEN", "INT", "KWD_ELSE", "STRING"]
    S.append(IF)
    S.append(["KWD_IF", "IDENT", "KWD_THEN", "INT"])
    S.append(["KWD_IF"] + IF + ["KWD_THEN", "INT", "KWD_ELSE", "STRING"])
    S.append(["KWD_IF", "IDENT", "KWD_THEN"] + IF + ["KWD_ELSE", "STRING"])
    S.append(["KWD_IF", "IDENT", "KWD_THEN", "INT", "KWD_ELSE"] + IF)
    for o in binops:
        S.append(IF + [o, "FLOAT"])
        S.append(["FLOAT", o] + IF)
        S.append(["KWD_IF", "IDENT", o, "FLOAT", "KWD_THEN", "INT", "KWD_ELSE", "STRING"])
        S.append(["LPAREN", "IDENT", o, "INT", "RPAREN", o, "STRING"])
        S.append(["IDENT", o, "LPAREN", "INT", o, "STRING", "RPAREN"])
        S.append(["IDENT", o, "INT", o, "STRING", o, "FLOAT"])
    out = []
    seen = set()
    for s in S:
        for k in (len(s), len(s) - 1):
            t = tuple(s[:k])
            if t and t not in seen:
                seen.add(t)
                out.append(("Expr", list(t)))
    M = ["OP_META", "IDENT", "COLON", "INT", "SEMICOLON"]
    R = [["IDENT"], M + ["IDENT"], M + M + ["IDENT", "OP_ADD", "INT"], M, M[:-1] + ["IDENT"], ["OP_META", "IDENT", "COLON", "IDENT", "OP_ADD", "INT", "SEMICOLON", "IDENT"],
         ["IDENT"] + M, M[:2] + M[3:] + ["IDENT"], ["OP_META", "KWD_INT", "COLON", "INT", "SEMICOLON", "IDENT"], []]
    for s in R:
        out.append(("Rule", s))
    return out


def run(res, f, tier):
    g, Pg = extracted_grammar(f)
    Ps = precedence.productions()
    res.floor("productions in the generated parser", len(g["productions"]), 70)
    res.floor("terminals", len(g["terminals"]), 40)
    Pg = reachable(Pg, ["Expr", "Rule"])
    Ps = reachable(Ps, ["Expr", "Rule"])
    tg = set(s for _, r, _ in Pg for s in r) - cfg.nonterminals(Pg)
    ts = set(s for _, r, _ in Ps for s in r) - cfg.nonterminals(Ps)
    Ig = cfg.inline_nonrecursive(Pg, keep={"Expr", "Rule"})
    Is = cfg.inline_nonrecursive(Ps, keep={"Expr", "Rule"})
    cls, _ = cfg.bisimulation_classes(Is, Ig)
    same = cls.get("a:Expr") == cls.get("b:Expr") and cls.get("a:Rule") == cls.get("b:Rule") and cls.get("a:Expr") is not None
    obligations = len(Is) + len(Ig)
    structural = same
    diff = None
    if not same:
        # canonical production sets under the final partition, for the report
        def canon(P, tag):
            out = set()
            for l, r, t in P:
                out.add(("#%d" % cls[tag + l], tuple(("#%d" % cls[tag + s]) if (tag + s) in cls else s for s in r), t))
            return out
        ca, cb = canon(Is, "a:"), canon(Ig, "b:")
        diff = {"only_in_table": sorted(ca - cb)[:12], "only_in_parser": sorted(cb - ca)[:12],
                "terminals_only_in_table": sorted(ts - tg), "terminals_only_in_parser": sorted(tg - ts)}
    # G2: probe sentences
    witnesses = []
    P = probes()
    nprobe = 0
    if tier == "thorough" or not same:
        todo = P
    else:
        todo = P[::3]   # quick tier cross-checks a third of the suite when the structural proof succeeded
    import lexre
    lx = lexre.Lexer(g["table"])
    names = {i: n for n, i in g["terminal_token"].items()}
    import re as _re

    def strip_names(trees):
        # leaves are TOKEN@position: the comparison is on structure and positions, not on the terminal's name
        return sorted(_re.sub(r"[A-Z_0-9]+@", "@", t) for t in trees)
    for start, sent in todo:
        nprobe += 1
        ra = cfg.earley_parse(Ps, start, sent)
        # the parser side is probed at TEXT level: spell the sentence, lex it with the generated table, parse the
        # terminals the lexer actually produces (robust to renamed / merged keyword tokens)
        try:
            text = " ".join(precedence.TEXT[t] for t in sent)
            actual = [names[i] for i, _ in lx.tokenize(text)]
            rb = cfg.earley_parse(Pg, start, actual) if len(actual) == len(sent) else ["<retokenised: %s>" % " ".join(actual)]
        except (ValueError, KeyError):
            rb = []
        if strip_names(ra) != strip_names(rb):
            witnesses.append({"start": start, "tokens": " ".join(sent), "table_says": ra or "reject", "parser_does": rb or "reject"})
            if len(witnesses) >= 8:
                break
    if witnesses:
        w = witnesses[0]
        res.violation("C07|grammar|%s" % w["tokens"],
                      "the parser's grammar differs from the precedence table: `%s` -> table: %s, parser: %s" % (w["tokens"], w["table_says"], w["parser_does"]),
                      {"witnesses": witnesses, "production_diff": diff})
    # a differing terminal alphabet alone is not a violation (tokens may be renamed / merged); the text-level probes decide
    res.coverage = {
        "obligations": obligations,
        "discharged": obligations if same else 0,
        "checker_cmd": "python3 rules/check.py C07",
        "trusted_base": ["lalrpop 0.22 implements the LR(1) construction for the BNF it prints (a conflict fails the build, so the grammar is unambiguous)",
                         "rustc MIR + rules/tss.py for the action terms", "spec/precedence.py (the property's table)", "the lexer side (text -> terminals) is C08's"],
        "explanation": ("structural proof for all lengths: after inlining non-recursive nonterminals the generated grammar (%d productions) and the table's grammar (%d) are "
                        "identical up to renaming of nonterminals, actions included" % (len(Ig), len(Is))) if same else
                       "structural proof NOT available (grammar shape differs); verdict from the bounded probe suite only",
        "structural_proof": structural,
        "production_diff": diff,
        "probe_sentences": nprobe, "probe_suite_size": len(P), "witnesses": len(witnesses),
        "samples": [x for x in ({"tokens": " ".join(s), "tree": cfg.earley_parse(Pg, st_, s)} for st_, s in P[60:2000:97]) if x["tree"]][:8]
                   + [{"tokens": " ".join(s), "tree": "reject"} for st_, s in P[61:400:150]],
        "exhaustive": bool(same),
    }
    res.assumptions = ["token sequences are produced from text by the lexer as decided under C08"]
