"""Extracts the grammar and lexer tables lalrpop wrote into the generated parser (OUT_DIR/reval.rs of the
same cargo check that produced the MIR facts): expanded BNF productions with their action numbers,
terminal names, the Token-index -> terminal map and the ordered (regex, skip) lexer table."""
import re

PROD = re.compile(r"^\s*// (.+?) = (.*?) => ActionFn\((\d+)\);\s*$")
PROD_EMPTY = re.compile(r"^\s*// (.+?) =\s*=> ActionFn\((\d+)\);\s*$")


class GrammarError(Exception):
    pass


def rust_unescape(body):
    out = []
    i = 0
    while i < len(body):
        c = body[i]
        if c != "\\":
            out.append(c)
            i += 1
            continue
        i += 1
        c = body[i]
        i += 1
        if c == "n":
            out.append("\n")
        elif c == "r":
            out.append("\r")
        elif c == "t":
            out.append("\t")
        elif c == "0":
            out.append("\0")
        elif c in "\\\"'":
            out.append(c)
        elif c == "u":
            assert body[i] == "{"
            j = body.index("}", i)
            out.append(chr(int(body[i + 1:j], 16)))
            i = j + 1
        elif c == "x":
            out.append(chr(int(body[i:i + 2], 16)))
            i += 2
        else:
            raise GrammarError("unknown string escape \\%s" % c)
    return "".join(out)


def split_symbols(rhs):
    """split 'A, (<B> C)*, D?' at top-level commas"""
    out = []
    depth = 0
    cur = []
    for ch in rhs:
        if ch in "(<":
            depth += 1
        elif ch in ")>":
            depth -= 1
        if ch == "," and depth == 0:
            out.append("".join(cur).strip())
            cur = []
        else:
            cur.append(ch)
    last = "".join(cur).strip()
    if last:
        out.append(last)
    return out


def extract(path):
    with open(path, encoding="utf-8") as fh:
        src = fh.read()
    lines = src.split("\n")
    prods = {}
    for ln in lines:
        m = PROD_EMPTY.match(ln)
        if m:
            prods[(m.group(1).strip(), ())] = int(m.group(2))
            continue
        m = PROD.match(ln)
        if m:
            lhs = m.group(1).strip()
            rhs = tuple(split_symbols(m.group(2)))
            prods[(lhs, rhs)] = int(m.group(3))
    # terminals
    terms = None
    for m in re.finditer(r"const __TERMINAL: &\[&str\] = &\[(.*?)\];", src, re.S):
        t = re.findall(r'r###"(.*?)"###', m.group(1))
        if terms is None:
            terms = t
        elif terms != t:
            raise GrammarError("the two parsers disagree on the terminal list")
    if not terms:
        raise GrammarError("terminal list not found")
    tok2term = {}
    m = re.search(r"fn __token_to_integer<.*?match __token \{(.*?)\n\s*_ => None", src, re.S)
    if not m:
        raise GrammarError("__token_to_integer not found")
    for a, b in re.findall(r"Token\((\d+), _\) if true => Some\((\d+)\)", m.group(1)):
        tok2term[int(a)] = int(b)
    # lexer table
    m = re.search(r"let __strs: &\[\(&str, bool\)\] = &\[(.*?)\n\s*\];", src, re.S)
    if not m:
        raise GrammarError("lexer table not found")
    table = []
    for rx, skip in re.findall(r'\("((?:[^"\\]|\\.)*)", (true|false)\),', m.group(1), re.S):
        table.append((rust_unescape(rx), skip == "true"))
    if not table:
        raise GrammarError("empty lexer table")
    term_regex = {}
    for ti, (rx, skip) in enumerate(table):
        if skip:
            continue
        if ti not in tok2term:
            raise GrammarError("token %d has no terminal" % ti)
        term_regex[terms[tok2term[ti]]] = ti
    nonterms = sorted(set(l for l, _ in prods))
    return {"productions": prods, "terminals": terms, "table": table, "terminal_token": term_regex,
            "nonterminals": nonterms, "starts": [l for l in nonterms if l.startswith("__")]}


if __name__ == "__main__":
    import sys
    g = extract(sys.argv[1])
    print(len(g["productions"]), "productions", len(g["terminals"]), "terminals", len(g["table"]), "patterns", g["starts"])
    for (l, r), a in sorted(g["productions"].items(), key=lambda x: x[1])[:200]:
        print("%3d  %s = %s" % (a, l, ", ".join(r)))
