"""C15 — a ruleset never holds duplicate or ill-formed rule and function names.

Must-pass-through and who-may-write rules over MIR summaries of the builder, the function table, the
identifier predicate and the symbol table."""
import re
import evalsum
from framework import Inconclusive
from mir import callee_of
from norm import norm, norm_cond, show, short_callee
from tss import Interp, State

LEVEL = "other"


def find1(f, name, self_part, what=None):
    c = [d for d, b in f.bodies.items() if b["name"] == name and b["kind"] in ("Fn", "AssocFn") and
         (self_part in ((b.get("impl") or {}).get("self_s", "")) if self_part else not b.get("impl"))]
    if len(c) != 1:
        raise Inconclusive("anchor %s%s not found (%s)" % (self_part + "::" if self_part else "", name, c))
    return c[0]


def summ(f, path, names, opaque=None):
    import roles
    outs, it = evalsum.summarize_fn(f, path, arg_names=names, opaque=opaque)
    b = f.bodies[path]
    # the rule list / function table / symbol table under their role names, whatever private structs carry them
    self_adt = f.adt_of(f.peel(b["locals"][1]["ty"])) if b["arg_count"] else None
    canon = roles.Canon(f, self_adt, names[0] if names else "self")
    rows = []
    for c, r, s, rv in outs:
        calls = [(short_callee(e[1]),) + tuple(show(norm(a)) for a in e[2]) for e in s.events if e[0] == "call"]
        rows.append(entry_api(canon({"conds": dict(c), "ret": r, "calls": calls})))
    return rows


ENTRY = re.compile(r"^BTreeMap::entry\((.*)\)$")


def entry_api(row):
    """the map entry API in terms of contains_key / insert:  `entry(k)` is Vacant  <=>  !contains_key(k);
    `vacant.insert(v)` == `insert(k, v)` (std semantics), so both spellings of a guarded insertion give one row"""
    conds = {}
    for k, v in row["conds"].items():
        m = ENTRY.match(k)
        if m and v in ("is Vacant", "is Occupied"):
            conds["BTreeMap::contains_key(%s)" % m.group(1)] = "val 0" if v == "is Vacant" else "val not:0"
        else:
            conds[k] = v
    calls = []
    for c in row["calls"]:
        if c[0] == "BTreeMap::entry":
            continue
        if c[0] == "VacantEntry::insert" and len(c) == 3:
            m = re.match(r"^BTreeMap::entry\((.*)\)\.Vacant\.0$", c[1])
            if m:
                # split "M, K" at the top-level comma
                inner = m.group(1)
                depth = 0
                cut = None
                for i, ch in enumerate(inner):
                    if ch in "([":
                        depth += 1
                    elif ch in ")]":
                        depth -= 1
                    elif ch == "," and depth == 0:
                        cut = i
                        break
                if cut is not None:
                    calls.append(("BTreeMap::insert", inner[:cut], inner[cut + 1:].strip(), c[2]))
                    continue
        calls.append(c)
    return {"conds": conds, "ret": row["ret"], "calls": calls}


def closure_with_captures(f, path, captures, argnames):
    b = f.bodies[path]
    it = Interp(f)
    st = State()
    fid = it.new_frame(st)
    clo = ("closure", path, tuple(("sym", c) for c in captures))
    selfty = f.ty(b["locals"][1]["ty"])
    st.frames[fid][1] = ("ref", st.alloc(clo)) if selfty["k"] == "ref" else clo
    for i, a in enumerate(argnames):
        st.frames[fid][i + 2] = evalsum.symbolic_arg(f, it, st, b["locals"][i + 2]["ty"], a)
    res = it.run_body(b, st, fid, 0)
    return sorted((tuple(sorted(set(norm_cond(c) for c in s.conds))), show(norm(it.resolve(s, rv)))) for s, rv in res)


def run(res, f, tier):
    obligations = discharged = 0

    def ob(ok, key, what, detail=None):
        nonlocal obligations, discharged
        obligations += 1
        if ok:
            discharged += 1
        else:
            res.violation(key, what, detail)

    # ------------------------------------------------------------------ rules
    with_rule = find1(f, "with_rule", "Builder")
    rows = summ(f, with_rule, ["self", "rule"])
    anyc = [k for r in rows for k in r["conds"] if k.startswith("Iter::any(")]
    ok = len(rows) == 2 and len(set(anyc)) == 1
    clo = None
    if ok:
        A = anyc[0]
        pass
        m = re.fullmatch(r"Iter::any\((?:\[Rule\]::iter\(self\.rules\)|into_iter\(self\.rules\)), closure\(([^,]+), (rule\.name|rule)\)\)", A)
        ok = bool(m)
        if m:
            clo = m.group(1)
            acc = [r for r in rows if r["conds"][A] == "val 0"]
            rej = [r for r in rows if r["conds"][A] == "val not:0"]
            ok = (len(acc) == 1 and len(rej) == 1 and acc[0]["ret"] == "Ok(Builder(push(self.rules, rule), self.functions, self.symbols))"
                  and rej[0]["ret"] == "Err(DuplicateRuleName(rule.name))" and not any(c[0] == "Vec::push" for c in rej[0]["calls"]))
    ob(ok, "C15|with_rule", "with_rule must append the rule exactly when no existing rule has its name, and otherwise refuse with DuplicateRuleName(that name): %s" % [(r["conds"], r["ret"]) for r in rows])
    if not clo:
        ob(False, "C15|with_rule|predicate", "the duplicate test of with_rule could not be located")
    else:
        cap = m.group(2)
        cs = closure_with_captures(f, clo, ["name" if cap == "rule.name" else "rule"], ["r"])
        rule_fields = [fl["name"] for fl in f.adts["ruleset::rule::Rule"]["variants"][0]["fields"]]
        names_ = ["name"] if cap == "rule.name" else ["rule.name", "rule.%d" % rule_fields.index("name")]
        ob(any(cs in ([((), "str::eq(r.name, %s)" % N_)], [((), "str::eq(%s, r.name)" % N_)]) for N_ in names_), "C15|with_rule|predicate", "the duplicate test must compare each existing rule's name with the new rule's name: %s" % cs)
    with_rules = find1(f, "with_rules", "Builder")
    rows = summ(f, with_rules, ["self", "rules"], opaque=lambda p: p == with_rule)
    SRC = "into_iter(rules)"
    good = True
    for r in rows:
        calls = [c for c in r["calls"] if c[0] == "Builder::with_rule"]
        # i-th call receives the builder returned by the (i-1)-th and the i-th element
        prev = "self"
        for i, c in enumerate(calls):
            if c != ("Builder::with_rule", prev, "elem%d(%s)" % (i, SRC)):
                good = False
            prev = "Builder::with_rule!(%s, elem%d(%s))" % (prev, i, SRC)
        failed = [k for k, v in r["conds"].items() if k.startswith("Builder::with_rule(") and v == "fails"]
        if failed:
            good = good and r["ret"].startswith("Err(Builder::with_rule!err(")
        else:
            n = len(calls)
            good = good and r["ret"] == "Ok(%s)" % (prev if n else "self") and r["conds"].get("next(%s, #%d)" % (SRC, n)) == "fails"
    ob(good and len(rows) >= 4, "C15|with_rules", "with_rules must add the rules one by one through with_rule, in order, stopping at the first refusal",
       {"paths": [(r["conds"], r["ret"]) for r in rows][:4]})
    build = find1(f, "build", "ruleset::builder::Builder")
    rows = summ(f, build, ["self"])
    outs_b, _it = evalsum.summarize_fn(f, build, arg_names=["self"])
    moved = {}
    if len(outs_b) == 1:
        # the ruleset that comes out, by role: a constructor term, the builder's own ruleset (`self.ruleset`), or the
        # builder itself when it is the ruleset
        import roles as _roles
        cn = _roles.Canon(f, "ruleset::builder::Builder", "self")
        if rows[0]["ret"] == "self":
            moved = {k: "self." + k for k in ("rules", "functions", "symbols")}
        elif "ruleset::RuleSet" in cn.car:
            rr, _oth = cn._roles_of_term("ruleset::RuleSet", cn.leaves(outs_b[0][1]))
            if rr is None:
                rr, _oth = cn._roles_of_term("ruleset::RuleSet", rows[0]["ret"])
            moved = rr or {}
    # the three collections the builder accepted go unchanged into the ruleset (further fields are not C15's)
    ob(len(rows) == 1 and all(moved.get(k) == "self." + k for k in ("rules", "functions", "symbols")), "C15|build",
       "build must move the accepted rules, functions and symbols unchanged into the RuleSet: %s" % [r["ret"] for r in rows])
    # ------------------------------------------------------------------ functions
    # the admission function of the function table, by what it does: the UserFunctions method that inserts into the table
    # (`add_boxed_function` today; a generic `add_function` that boxes and inserts itself is the same thing)
    from mir import callee_of
    adm_c = []
    for d, b_ in f.bodies.items():
        if b_.get("parent") or (b_.get("impl") or {}).get("self_s") != "function::UserFunctions" or (b_.get("impl") or {}).get("trait"):
            continue
        for blk in b_["blocks"]:
            t_ = blk["term"]
            if t_["k"] == "call" and not blk["cleanup"]:
                c_ = callee_of(t_)
                if c_ and short_callee(c_.get("resolved_full") or c_["full"]) in ("BTreeMap::insert", "VacantEntry::insert", "Entry::or_insert", "Entry::or_insert_with"):
                    adm_c.append(d)
    adm_c = sorted(set(adm_c))
    if len(adm_c) != 1:
        raise Inconclusive("the method of UserFunctions that inserts into the function table was not found (%s)" % adm_c)
    add_boxed = adm_c[0]
    ADM = short_callee(add_boxed)
    reserved = find1(f, "is_reserved_keyword", "")
    valid = find1(f, "is_valid_identifier", "")

    def canon_fn(x):
        """the function's own name / the function itself, boxed or not, dyn or generic"""
        if isinstance(x, str):
            x = re.sub(r"(?:dyn |impl )?UserFunction(?: \+ [\w']+)*::name\((?:function|Box::new\(function\))\)", "NAME", x)
            x = re.sub(r"Box::new\((function|elem\d+\(into_iter\(functions\)\))\)", r"\1", x)
            return x
        if isinstance(x, tuple):
            return tuple(canon_fn(y) for y in x)
        if isinstance(x, list):
            return [canon_fn(y) for y in x]
        if isinstance(x, dict):
            return {canon_fn(k): canon_fn(v) for k, v in x.items()}
        return x

    rows = canon_fn(summ(f, add_boxed, ["self", "function"], opaque=lambda p: p in (reserved, valid)))
    N = "NAME"
    R, V, D = "keywords::is_reserved_keyword(%s)" % N, "keywords::is_valid_identifier(%s)" % N, "BTreeMap::contains_key(self.functions, %s)" % N
    ins = [r for r in rows if any(c[0] == "BTreeMap::insert" for c in r["calls"])]
    rest = [r for r in rows if r not in ins]
    ok = (len(ins) == 1 and ins[0]["conds"] == {R: "val 0", V: "val not:0", D: "val 0"} and ins[0]["ret"] == "Ok(tuple())"
          and [c for c in ins[0]["calls"] if c[0] == "BTreeMap::insert"] == [("BTreeMap::insert", "self.functions", N, "function")])
    ob(ok, "C15|add_function|insert", "a function must be inserted under its own name exactly when the name is not reserved, is a valid identifier and is not present yet",
       {"inserting_paths": [(r["conds"], r["ret"]) for r in ins]})
    want_err = {R: "Err(InvalidFunctionName(%s))" % N, V: "Err(InvalidFunctionName(%s))" % N, D: "Err(DuplicateFunctionName(%s))" % N}
    bad = []
    for r in rest:
        # the refusing test is the last one on the path
        refusing = [k for k, v in r["conds"].items() if (k == R and v == "val not:0") or (k == V and v == "val 0") or (k == D and v == "val not:0")]
        if len(refusing) != 1 or r["ret"] != want_err[refusing[0]]:
            bad.append((r["conds"], r["ret"]))
    ob(len(rest) == 3 and not bad, "C15|add_function|refusals", "each refusal must report the offending name with the matching error: %s" % bad)
    # the public ways in reach the table only through the admission function (wrappers in between are read through)
    add_fn = find1(f, "add_function", "UserFunctions")
    if add_fn != add_boxed:
        rows = canon_fn(summ(f, add_fn, ["self", "function"], opaque=lambda p: p == add_boxed))
        ob(len(rows) == 1 and rows[0]["ret"] == "%s(self, function)" % ADM, "C15|add_function|wrapper", "add_function must box the function and delegate to %s: %s" % (ADM, [r["ret"] for r in rows]))
    with_fn = find1(f, "with_function", "Builder")
    rows = canon_fn(summ(f, with_fn, ["self", "function"], opaque=lambda p: p == add_boxed))
    C = "%s(self.functions, function)" % ADM
    ok = sorted((tuple(sorted(r["conds"].items())), r["ret"]) for r in rows) == sorted([(((C, "fails"),), "Err(%s)" % C.replace(ADM + "(", ADM + "!err(")), (((C, "ok"),), "Ok(self)")])
    ob(ok, "C15|with_function", "with_function must add through the function table and keep the builder otherwise unchanged: %s" % [(r["conds"], r["ret"]) for r in rows])
    with_fns = find1(f, "with_functions", "Builder")
    rows = canon_fn(summ(f, with_fns, ["self", "functions"], opaque=lambda p: p == add_boxed))
    good = len(rows) >= 4
    for r in rows:
        calls = [c for c in r["calls"] if c[0] == ADM]
        for i, c in enumerate(calls):
            if c != (ADM, "self.functions", "elem%d(into_iter(functions))" % i):
                good = False
        failed = [k for k, v in r["conds"].items() if k.startswith(ADM + "(") and v == "fails"]
        if failed:
            good = good and r["ret"].startswith("Err(%s!err(" % ADM)
        else:
            good = good and r["ret"] == "Ok(self)"
    ob(good, "C15|with_functions", "with_functions must add each function through %s, in order, stopping at the first refusal" % ADM, {"paths": [(r["conds"], r["ret"]) for r in rows][:4]})
    # identifier predicate
    rows = summ(f, valid, ["name"])
    ALL = "Chars::all(str::chars(name), fn char::is_xid_continue)"
    FIRST = "elem0(str::chars(name))"
    U, X, NX = "Eq(95, %s)" % FIRST, "char::is_xid_start(%s)" % FIRST, "next(str::chars(name), #0)"
    bad = []
    for r in rows:
        c = r["conds"]
        if r["ret"] == "False":
            if not (c.get(NX) == "fails" or (c.get(U) == "val 0" and c.get(X) == "val 0")):
                bad.append((c, r["ret"]))
        elif r["ret"] == ALL:
            if not (c.get(NX) == "ok" and (c.get(U) == "val not:0" or c.get(X) == "val not:0")):
                bad.append((c, r["ret"]))
        else:
            bad.append((c, r["ret"]))
    ob(not bad and any(r["ret"] == ALL for r in rows) and any(r["conds"].get(NX) == "fails" for r in rows), "C15|identifier",
       "a name is a valid identifier only if its first character is '_' or XID_Start AND all remaining characters are XID_Continue (empty: no): offending paths %s" % bad)
    rows = summ(f, reserved, ["name"])
    # the keyword table shows either by name or, when the constant was read, by its contents
    TABLE = re.compile(r"array\((?:'[a-z_]+'(?:, )?)+\)")
    for r in rows:
        r["ret"] = TABLE.sub("'expr::keywords::KEYWORDS'", r["ret"])
        r["calls"] = [tuple(TABLE.sub("'expr::keywords::KEYWORDS'", x) if isinstance(x, str) else x for x in c) for c in r["calls"]]
        r["conds"] = {TABLE.sub("'expr::keywords::KEYWORDS'", k): v for k, v in r["conds"].items()}
    member_contains = len(rows) == 1 and rows[0]["ret"].startswith("[str]::contains('") and rows[0]["ret"].endswith("', name)")
    # a binary search is a membership test only on a table sorted in the order the search compares by (byte order of &str)
    member_bsearch = False
    bs = [r for r in rows if any(c[0] == "[str]::binary_search" and c[-1] == "name" for c in r["calls"])]
    if bs and len(bs) == len(rows):
        words_in_order = []
        for b_ in [b for d, b in f.bodies.items() if d.endswith("keywords::KEYWORDS") and b["kind"].startswith("Const")]:
            for blk in b_["blocks"]:
                for st_ in blk["stmts"]:
                    if st_["k"] == "assign" and st_["rv"]["k"] == "agg" and st_["rv"]["ak"] == "array":
                        words_in_order = [o["data"]["str"] for o in st_["rv"]["ops"] if o.get("k") == "const" and "data" in o and "str" in o["data"]]
        sorted_ok = words_in_order == sorted(words_in_order, key=lambda w: w.encode()) and len(words_in_order) > 0
        rets = set(r["ret"] for r in rows)
        member_bsearch = sorted_ok and rets <= {"True", "False"} and all((r["ret"] == "True") == any(v == "ok" for k, v in r["conds"].items() if "binary_search" in k) for r in rows)
        if not sorted_ok:
            ob(False, "C15|reserved-unsorted", "is_reserved_keyword uses a binary search but the keyword table is not sorted in byte order, so some reserved words are never found: %s" %
               [w for i, w in enumerate(words_in_order[1:]) if w.encode() < words_in_order[i].encode()][:5])
    # `TABLE.iter().any(|k| k == name)` is the same membership test
    member_any = False
    m_any = re.fullmatch(r"Iter::any\((?:\[str\]::iter|into_iter)\('[\w:]*KEYWORDS'\), closure\(([^,]+), name\)\)", rows[0]["ret"]) if len(rows) == 1 else None
    if m_any:
        cs = closure_with_captures(f, m_any.group(1), ["name"], ["k"])
        member_any = cs in ([((), "str::eq(k, name)")], [((), "str::eq(name, k)")])
    ob(member_contains or member_bsearch or member_any, "C15|reserved", "is_reserved_keyword must test membership of the unmodified name in the keyword table: %s" % [r["ret"] for r in rows])
    # keyword tables agree: every alphabetic keyword of the grammar is reserved for function names
    import grammar as _grammar
    import re as _re
    kw_body = [b for d, b in f.bodies.items() if d.endswith("keywords::KEYWORDS") and b["kind"].startswith("Const")]
    reserved_words = set()
    for b in kw_body:
        for blk in b["blocks"]:
            for st_ in blk["stmts"]:
                if st_["k"] == "assign" and st_["rv"]["k"] == "agg" and st_["rv"]["ak"] == "array":
                    for o in st_["rv"]["ops"]:
                        if o.get("k") == "const" and "data" in o and "str" in o["data"]:
                            reserved_words.add(o["data"]["str"])
    g = _grammar.load(f)
    grammar_words = set()
    for rx, skip in g["table"]:
        m = _re.fullmatch(r"\(\?:([a-z_]+)\)", rx)
        if m:
            grammar_words.add(m.group(1))
    res.floor("reserved words", len(reserved_words), 30)
    res.floor("keyword tokens of the grammar", len(grammar_words), 20)
    missing = sorted(grammar_words - reserved_words)
    ob(not missing, "C15|keywords-agree", "keywords of the grammar that are not reserved as function names (a function of that name could be registered but never called): %s" % missing)
    # ------------------------------------------------------------------ who may write the tables
    writers = {"functions": set(), "rules": set()}
    for d, b in f.bodies.items():
        for blk in b["blocks"]:
            if blk["cleanup"]:
                continue
            for s in blk["stmts"]:
                if s["k"] != "assign":
                    continue
                places = []
                if s["rv"]["k"] == "ref" and s["rv"]["bk"] == "mut":
                    places.append(s["rv"]["place"])
                if s["place"]["p"]:
                    places.append(s["place"])
                for pl in places:
                    # type of the place = type of its last field projection
                    ty = None
                    for e in pl["p"]:
                        if e[0] == "field":
                            ty = e[2]
                    if ty is None:
                        continue
                    ts = f.ty_s(ty)
                    if ts.startswith("std::collections::BTreeMap<&str, std::boxed::Box<dyn function::UserFunction"):
                        writers["functions"].add(b.get("parent") or d)
                    if ts == "std::vec::Vec<ruleset::rule::Rule>":
                        writers["rules"].add(b.get("parent") or d)
    # a private helper that only the admitted writer calls (a method of a wrapper around the list) writes on its behalf
    callers_of = {}
    for d_, b_ in f.bodies.items():
        for blk_ in b_["blocks"]:
            t_ = blk_["term"]
            if t_["k"] == "call":
                c_ = callee_of(t_)
                if c_:
                    callers_of.setdefault(c_.get("resolved") or c_["path"], set()).add(b_.get("parent") or d_)

    def on_behalf(root):
        allowed = {root}
        grew = True
        while grew:
            grew = False
            for d_ in list(writers["rules"] | writers["functions"]):
                if d_ not in allowed and callers_of.get(d_) and callers_of[d_] <= allowed:
                    allowed.add(d_)
                    grew = True
        return allowed
    writers["functions"] -= on_behalf(add_boxed) - {add_boxed}
    writers["rules"] -= on_behalf(with_rule) - {with_rule}
    ob(writers["functions"] <= {add_boxed}, "C15|who-writes|functions", "the function table may be mutated only by %s: %s" % (ADM, sorted(writers["functions"])))
    ob(writers["rules"] <= {with_rule}, "C15|who-writes|rules", "the rule list may be mutated only by with_rule: %s" % sorted(writers["rules"]))
    # ------------------------------------------------------------------ symbols: last registration wins
    with_symbol = find1(f, "with_symbol", "Builder")
    rows = summ(f, with_symbol, ["self", "symbol", "value"])
    ob(len(rows) == 1 and rows[0]["ret"] == "Builder(self.rules, self.functions, Symbols(insert(self.symbols.0, impl ToString::to_string(symbol), value)))",
       "C15|with_symbol", "with_symbol must (over)write the symbol with BTreeMap::insert semantics: %s" % [r["ret"] for r in rows])
    with_symbols = find1(f, "with_symbols", "Builder")
    rows = summ(f, with_symbols, ["self", "symbols"])
    # `append(&mut other)` and `extend(iterator)` both insert every new pair over an existing one (later wins)
    ap = [c for r in rows for c in r["calls"] if c[0] in ("BTreeMap::append", "BTreeMap::extend")]
    ok = len(rows) == 1 and rows[0]["ret"] == "Ok(self)" and len(ap) == 1 and ap[0][1] == "self.symbols.0" and "symbols.0" in ap[0][2]
    first_wins = [c for r in rows for c in r["calls"] if any(x in c[0] for x in ("entry", "or_insert", "try_insert"))]
    ob(ok and not first_wins, "C15|with_symbols", "with_symbols must merge with BTreeMap::append semantics (later registration wins): %s" % ap)
    res.floor("builder obligations", obligations, 12)
    res.coverage = {
        "explanation": "MIR summaries (all paths, loops unrolled twice) of Builder::{with_rule, with_rules, with_function, with_functions, with_symbol, with_symbols, build}, "
                       "UserFunctions::{add_function, add_boxed_function}, is_valid_identifier and is_reserved_keyword were compared with the admission rules; all MIR "
                       "assignments / mutable borrows of the rule list and the function table were attributed to their functions (who-may-write).",
        "obligations": obligations, "discharged": discharged,
        "writers": {k: sorted(v) for k, v in writers.items()},
        "rule": "insertion dominated by the three admission tests; refusals name the offender; wrappers delegate; tables written nowhere else",
        "samples": [{"fn": "is_valid_identifier", "paths": [(sorted(r["conds"].items()), r["ret"]) for r in summ(f, valid, ["name"])]}],
        "exhaustive": True,
    }
    res.assumptions = ["UnicodeXID::is_xid_start / is_xid_continue implement the Unicode identifier classes", "Iterator::any / all, BTreeMap::insert / append / contains_key semantics (std)",
                       "agreement of the keyword table with the grammar's keyword terminals is checked by the grammar engine (C15 thorough / C08)"]
