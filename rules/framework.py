"""Common check plumbing: facts loading, known findings, violation reporting, evidence files."""
import json
import os
import sys
import time
import traceback

VERIF = os.path.dirname(os.path.dirname(os.path.abspath(__file__)))
sys.path.insert(0, os.path.join(VERIF, "rules"))
sys.path.insert(0, os.path.join(VERIF, "spec"))

import runner  # noqa: E402
from mir import Facts  # noqa: E402

EVIDENCE_DIR = os.environ.get("VERIF_EVIDENCE_DIR") or os.path.join(VERIF, "evidence")
KNOWN = os.path.join(VERIF, "known_findings.json")


class Inconclusive(Exception):
    """A required anchor is missing or could not be analysed: neither pass nor violation."""


class Result:
    def __init__(self, pid, level):
        self.pid = pid
        self.level = level
        self.violations = []      # dicts: key, what, detail
        self.coverage = {}
        self.assumptions = []
        self.notes = []
        self.floors = []          # (name, measured, floor)
        self.floor_failures = []

    def violation(self, key, what, detail=None):
        self.violations.append({"key": key, "what": what, "detail": detail})

    def floor(self, name, measured, floor):
        """fail closed when an anchor count falls below what was confirmed by hand"""
        self.floors.append((name, measured, floor))
        if measured < floor:
            # reported at the end: a violation found on the same run takes precedence over the low count
            self.floor_failures.append("anchor count %s = %d below floor %d (code moved or analysis blind)" % (name, measured, floor))


def load_known():
    if not os.path.exists(KNOWN):
        return []
    with open(KNOWN) as fh:
        return json.load(fh).get("findings", [])


_facts_cache = {}


def get_facts(repo=None):
    p, meta = runner.facts_path(repo)
    if p not in _facts_cache:
        _facts_cache[p] = Facts(p)
    f = _facts_cache[p]
    f.meta = meta
    f.path = p
    f.parser_src = p[:-5] + ".reval.rs"
    import norm
    norm.FACTS = f
    return f


def main(pid, level, fn, argv=None):
    """run check `fn(result, facts, tier)`; handle reporting, known findings, evidence, exit code"""
    argv = argv if argv is not None else sys.argv[1:]
    tier = os.environ.get("VERIF_TIER", "quick")
    if "--tier" in argv:
        tier = argv[argv.index("--tier") + 1]
    seed = int(os.environ.get("VERIF_SEED", "0") or 0)
    t0 = time.time()
    res = Result(pid, level)
    ev_path = os.path.join(EVIDENCE_DIR, pid + ".json")
    os.makedirs(EVIDENCE_DIR, exist_ok=True)
    try:
        if os.path.exists(ev_path):
            os.remove(ev_path)
        facts = get_facts()
        try:
            fn(res, facts, tier)
        except Inconclusive as e:
            # what was established before the analysis gave up still stands: a violation already found is reported
            if not res.violations:
                raise
            res.floor_failures.append(str(e))
        except Exception as e:
            if type(e).__name__ in ("PathLimit", "Unsupported"):
                # an analysis bound was exceeded / a construct is not modelled: undecided, not a checker defect
                if not res.violations:
                    raise Inconclusive("analysis bound exceeded or construct not modelled (%s: %s)" % (type(e).__name__, e))
                res.floor_failures.append("%s: %s" % (type(e).__name__, e))
            else:
                raise
    except Inconclusive as e:
        print("INCONCLUSIVE property=%s %s" % (pid, e))
        sys.exit(3)
    except runner.BrokenCheck as e:
        print("BROKEN property=%s %s" % (pid, e))
        sys.exit(3)
    except Exception as e:
        traceback.print_exc()
        tb = traceback.extract_tb(e.__traceback__)
        where = "%s:%d" % (os.path.basename(tb[-1].filename), tb[-1].lineno) if tb else "?"
        print("BROKEN property=%s internal error in the checker (%s: %s at %s)" % (pid, type(e).__name__, str(e)[:160].replace("\n", " "), where))
        sys.exit(3)
    known = [k for k in load_known() if k.get("property") == pid]
    open_keys = {k["key"]: k for k in known if k.get("status", "open") == "open"}
    new = []
    seen_known = []
    for v in res.violations:
        if v["key"] in open_keys:
            seen_known.append(v)
        else:
            new.append(v)
    for v in seen_known:
        print("KNOWN-FINDING: property=%s %s :: %s" % (pid, v["key"], v["what"]))
    if res.floor_failures and not new:
        for ff in res.floor_failures:
            print("INCONCLUSIVE property=%s %s" % (pid, ff))
        sys.exit(3)
    replay = None
    if new:
        rdir = os.path.join(EVIDENCE_DIR, "replay")
        os.makedirs(rdir, exist_ok=True)
        replay = os.path.join(rdir, "%s.json" % pid)
        with open(replay, "w") as fh:
            json.dump({"property": pid, "tier": tier, "facts": getattr(facts, "path", None),
                       "tree": getattr(facts, "meta", None),
                       "regenerate": "cd /verif && python3 rules/check.py %s --tier %s" % (pid, tier),
                       "violations": new}, fh, indent=1, default=str)
        for v in new:
            print("  violation %s :: %s" % (v["key"], v["what"]))
            if v.get("detail"):
                d = v["detail"] if isinstance(v["detail"], str) else json.dumps(v["detail"], default=str)
                print("    " + d[:1500])
        print("VIOLATION property=%s replay=%s" % (pid, replay))
    cov = dict(res.coverage)
    cov.setdefault("floors", [{"anchor": a, "measured": m, "floor": fl} for a, m, fl in res.floors])
    cov.setdefault("analysed_tree", getattr(facts, "meta", None))
    if res.notes:
        cov.setdefault("notes", res.notes)
    cov["known_findings_still_present"] = [v["key"] for v in seen_known]
    ev = {
        "property_id": pid,
        "tier": tier if tier in ("quick", "thorough") else "quick",
        "seed": seed,
        "level": level,
        "coverage": cov,
        "assumptions": res.assumptions,
        "wall_s": round(time.time() - t0, 3),
        "violations": len(new),
    }
    with open(ev_path, "w") as fh:
        json.dump(ev, fh, indent=1, default=str)
    sys.exit(1 if new else 0)
