"""C01 — evaluation returns a value or an error, never a panic / silent range loss.

Hazard-site analysis over every crate-local body reachable from the evaluation entry points."""
import evalsum
import hazards
from framework import Inconclusive

LEVEL = "other"


def entry_points(f):
    e = evalsum.find_by_name(f, "evaluate", evalsum.EXPR) + evalsum.find_by_name(f, "evaluate_value", "ruleset::RuleSet") \
        + evalsum.find_by_name(f, "evaluate", "ruleset::RuleSet")
    return e


def run(res, f, tier):
    entries = entry_points(f)
    if len(entries) != 3:
        raise Inconclusive("evaluation entry points not found: %s" % entries)
    # the monomorphic graph also brings in crate-local code that upstream generic code calls back during evaluation
    # (hand-written Debug / Display / PartialEq / Clone / Drop impls used by format!, ==, clone, drop)
    reach = evalsum.reachable_mono(f, entries)
    ev = evalsum.find_evaluator(f)
    if not ev or ev[1] not in reach:
        raise Inconclusive("recursive evaluator not reachable from the entry points")
    res.floor("bodies reachable from the evaluation entry points", len(reach), 60)
    counts = {"total": 0, "partial": 0, "silent": 0, "unclassified": 0, "local": 0}
    nsites = 0
    uncls = {}
    samples = []
    # a panic site inside operator code is named after the operator cells in which it is met (node kind, operand types):
    # `l + r` on integers is the same site whether it stands in `add`, in a `Numeric::plus` impl or in a macro expansion
    import optable
    try:
        site_cells = (optable.compute(f) or {}).get("site_cells", {})
    except Exception:
        site_cells = {}

    def site_key(p, s):
        cells = None
        if s["kind"] == "assert":
            cells = site_cells.get(("assert", p, s["detail"].split(":")[0]))
        elif s["kind"] == "call":
            cells = site_cells.get(("call", p, s["detail"]))
        if cells:
            by_kind = {}
            for kind, combo in sorted(cells):
                by_kind.setdefault(kind, []).append(",".join(combo))
            if len(by_kind) <= 3 and all(len(v) <= 4 for v in by_kind.values()):
                return "C01|op|%s|%s:%s" % ("+".join("%s(%s)" % (k_, ";".join(v)) for k_, v in sorted(by_kind.items())), s["kind"], s["detail"])
        return hazards.key("C01", p, s)

    for p in reach:
        b = f.bodies[p]
        for s in hazards.sites(f, b):
            nsites += 1
            counts[s["cls"]] = counts.get(s["cls"], 0) + 1
            if s["cls"] == "unclassified":
                uncls[s["detail"]] = uncls.get(s["detail"], 0) + 1
            if s["cls"] in ("partial", "silent"):
                res.violation(site_key(p, s),
                              "%s in %s at %s: %s (%s)" % (s["detail"], p, s["span"], s["reason"], s["cls"]),
                              {"function": p, "site": s})
            elif len(samples) < 12 and s["cls"] == "total" and s["kind"] in ("call", "cast") and nsites % 9 == 0:
                samples.append({"function": p, "site": "%s %s" % (s["kind"], s["detail"]), "class": s["cls"], "reason": s["reason"], "at": s["span"]})
    res.floor("call / cast / assert sites classified", nsites, 450)
    # termination argument: loops in reachable bodies
    loops = []
    for p in reach:
        for (src, dst, t) in hazards.back_edges(f.bodies[p]):
            loops.append((p, t["span"], t.get("exp")))
    bad_loops = [l for l in loops if not (l[2] and ("Await" in l[2] or "ForLoop" in l[2]))]
    for p, span, exp in bad_loops:
        res.violation("C01|%s|loop:%s" % (p, exp or "plain"), "loop that is neither an await loop nor a for loop over a collection in %s at %s" % (p, span))
    import control
    controls = control.hazard_controls()
    res.coverage = {
        "positive_controls": controls,
        "explanation": "Every crate-local MIR body reachable from Expr::evaluate, RuleSet::evaluate_value and RuleSet::evaluate (call graph over resolved "
                       "callees, closures and coroutine bodies) was scanned for constructs that can panic or lose range: Assert terminators, integer arithmetic, "
                       "numeric casts (lossless decided from source/target types), and calls / function references classified by spec/callees.py.",
        "entry_points": entries,
        "reachable_bodies": len(reach),
        "sites": nsites,
        "site_classes": counts,
        "unclassified_callees": uncls,
        "loops": {"await_or_for": len(loops) - len(bad_loops), "other": len(bad_loops)},
        "rule": "no site of class partial or silent in any reachable body",
        "samples": samples,
        "exhaustive": True,
    }
    res.assumptions = [
        "rustc MIR with overflow checks on is the program (an Assert site is the same source operation that wraps with checks off)",
        "spec/callees.py classification of the external callees actually used; unclassified callees are assumed total and are listed",
        "user functions (dyn UserFunction) and allocation failure are outside the property",
    ]
