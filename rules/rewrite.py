"""RW: do the functions that build or transform expression trees preserve what evaluation does?

A *constructor* is a crate-local function that receives expression trees and returns one (the public `Expr::…`
builders the grammar actions call); a *transformer* is such a function that recurses over its argument (a
simplifier, a folder).  Each is summarised path by path (TSS).  For a path that returns something other than the
plain node — the node of the function's general path with the arguments as children, or, for a transformer, the
argument itself, its recursive calls being identities by induction — both trees are *abstractly evaluated by the
crate's own evaluator* (the evaluator's MIR is interpreted on the concrete upper levels of the tree; the remaining
sub-expressions are opaque leaves that evaluate to an error or to a value of any tag) and the two path sets are
compared.  A pair of mutually consistent paths with different traces (which leaves are evaluated, in which order,
which user functions are reached) or different result classes (error kind / value tag / closed constant) is a
*definite* behavioural difference; open value terms that merely look different are not reported.

Nothing is executed: this is the same abstract interpretation that produces the evaluator tables, applied to a
two- or three-level tree instead of one node.
"""
import re

import evalsum
from evalsum import EXPR, VALUE
from norm import norm, norm_cond, short_callee, show
from tss import Interp, PathLimit, State, Unsupported

INTO_EXPR = re.compile(r"^impl (std::convert::)?Into<(expr::)?Expr>$")
EXPR_TYPES = (EXPR, "std::boxed::Box<%s>" % EXPR, "&" + EXPR, "&mut " + EXPR)


def ret_is_expr(f, b):
    t = f.ty_s(b["locals"][0]["ty"])
    return t == EXPR or t.startswith("std::result::Result<%s," % EXPR) or t == "std::boxed::Box<%s>" % EXPR


def candidates(f, reach):
    """crate-local, hand-written, synchronous functions (tree(s), ...) -> tree inside `reach`"""
    out = []
    for p in sorted(reach):
        b = f.bodies.get(p)
        if not b or b["kind"] not in ("Fn", "AssocFn") or b.get("coroutine_kind"):
            continue
        if p.startswith("parse::reval::") or (b.get("impl") or {}).get("derived"):
            continue
        if not ret_is_expr(f, b):
            continue
        tys = [f.ty_s(b["locals"][i + 1]["ty"]) for i in range(b["arg_count"])]
        if not any(t in EXPR_TYPES or INTO_EXPR.match(t) for t in tys):
            continue
        out.append(p)
    return out


# ------------------------------------------------------------------------------------------------ evaluation

class TreeEval:
    def __init__(self, f):
        ev = evalsum.find_evaluator(f)
        if not ev:
            raise Unsupported("evaluator not found")
        self.f = f
        self.fn_path, self.cor_path = ev

    def _opaque(self, p):
        return p == self.fn_path or evalsum.context_lookup(self.f, p)

    def _concrete(self, it, st, v):
        n = 0
        while n < 8:
            n += 1
            if v[0] == "ref":
                v = it.load_ptr(st, v[1])
            elif v[0] in ("box", "rref"):
                v = v[1]
            else:
                break
        return (v[0] == "adt" and v[1] == EXPR) or (v in st.known and isinstance(st.known[v], str))

    def _force(self, it, st, path, args):
        if path not in (self.fn_path, self.cor_path) or not args:
            return False
        return any(self._concrete(it, st, a) for a in args)

    def run(self, base_state, tree, frame_base=0, max_paths=30000):
        """abstract evaluation of `tree` (a live term of `base_state`) -> list of (conds, trace, ret, class)"""
        st = base_state.fork()
        st.events = []
        n0 = len(st.conds)
        probe = Interp(self.f)
        if not self._concrete(probe, st, tree):
            # a bare sub-expression: evaluated once, its outcome is the outcome
            nm = show(norm(probe.resolve(st, tree)))
            return [{"conds": (), "trace": (("Expr::eval_rec", nm),), "ret": "await(Expr::eval_rec(%s, ctx))" % nm, "class": ("?", nm),
                     "closed": False, "flags": set()}]
        it = Interp(self.f, opaque=self._opaque, max_depth=18, loop_bound=1, max_paths=max_paths)
        it.model_literal_eq = True
        it.frame_counter = frame_base + 100000
        it.force_inline = self._force
        selfref = ("ref", st.alloc(tree))
        ctx = ("ref", st.alloc(("sym", "ctx")))
        cor = ("coroutine", self.cor_path, evalsum.evaluator_captures(self.f, self.fn_path, selfref, ctx))
        fid = it.new_frame(st)
        st.frames[fid][1] = cor
        st.frames[fid][2] = ("sym", "task_context")
        res = it.run_body(self.f.bodies[self.cor_path], st, fid, 0)
        out = []
        for s, rv in res:
            conds = tuple(sorted(set(norm_cond(c) for c in s.conds[n0:])))
            trace = []
            for e in s.events:
                if e[0] != "call":
                    continue
                sc = short_callee(e[1])
                if e[1].endswith("eval_rec") or sc.endswith("eval_rec") or sc.startswith("EvalContext::"):
                    trace.append((sc,) + tuple(show(norm(a)) for a in e[2] if show(norm(a)) not in ("ctx", "context")))
            r = fold(it.resolve(s, rv))
            out.append({"conds": conds, "trace": tuple(trace), "ret": show(norm(r)), "class": evalsum.outcome_class(r), "closed": closed(r),
                        "flags": set(s.flags)})
        return out


def closed(t):
    """no symbolic part"""
    if not isinstance(t, tuple) or not t:
        return True
    if isinstance(t[0], str):
        if t[0] in ("sym", "proj", "call", "await", "iter", "discr", "uninit", "closure", "coroutine", "fn"):
            return False
        if t[0] == "const":
            return True
        return all(closed(x) for x in t[1:])
    return all(closed(x) for x in t)


def fold(t):
    """constant folding of boolean operators on closed operands (enough to see `!(false)`)"""
    if not isinstance(t, tuple) or not t:
        return t
    if t[0] in ("adt",):
        return (t[0], t[1], t[2], tuple(fold(x) for x in t[3]))
    if t[0] in ("box", "rref"):
        return (t[0], fold(t[1]))
    if t[0] == "op":
        args = tuple(fold(x) for x in t[2])
        if t[1] == "Not" and len(args) == 1 and args[0][0] == "const" and args[0][1] == "bool":
            return ("const", "bool", not args[0][2])
        if t[1] in ("Eq", "Ne") and len(args) == 2 and all(a[0] == "const" for a in args) and args[0][1] == args[1][1]:
            eq = args[0][2] == args[1][2]
            return ("const", "bool", eq if t[1] == "Eq" else not eq)
        return (t[0], t[1], args) + tuple(t[3:])
    return t


def compatible(ca, cb):
    da = {}
    for s, r in ca:
        da.setdefault(s, []).append(r)
    for s, r in cb:
        for r2 in da.get(s, []):
            if r == r2:
                continue
            if r.startswith("val not:") or r2.startswith("val not:"):
                neg, pos = (r, r2) if r.startswith("val not:") else (r2, r)
                if pos.startswith("val not:"):
                    continue
                if pos.startswith("val ") and pos[4:] not in neg[len("val not:"):].split(","):
                    continue
                return False
            return False
    return True


def refine_class(p, conds):
    """result class of a path; a result that is the bare outcome of a leaf takes its class from the conditions"""
    c = p["class"]
    if c[0] != "?":
        return c
    r = p["ret"]
    d = {}
    for s_, rel in conds:
        d.setdefault(s_, []).append(rel)
    if "is Ok" in d.get(r, []):
        tags = [x[3:] for x in d.get(r + ".Ok.0", []) if x.startswith("is ")]
        return ("Ok", tags[0] if tags else "?")
    if "is Err" in d.get(r, []):
        return ("Err", "?propagated")
    return c


TYPE_ERRS = ("InvalidType", "UnexpectedValueType", "InvalidCast")


# conditions whose meaning is exact in this abstraction: the outcome of a leaf sub-expression / context lookup
# (error or value), the tag of its value, the payload of a boolean value, and the steps of a collection iterator
LEAF_COND = re.compile(r"^(await\()?(Expr::eval_rec|EvalContext::\w+)\(.*\)\)?(\.Ok\.0(\.Bool\.0)?)?$|^next\(")


def exact_scenario(conds):
    return all(LEAF_COND.match(s_) for s_, _ in conds)


def differences(pe, pr):
    """definite behavioural differences between two path sets -> list of dicts with the properties they concern"""
    out = []
    seen = set()
    for a in pe:
        if not exact_scenario(a["conds"]):
            continue
        for b in pr:
            if not exact_scenario(b["conds"]) or not compatible(a["conds"], b["conds"]):
                continue
            props = set()
            what = []
            if a["trace"] != b["trace"]:
                props.add("C05")
                what.append("sub-expressions evaluated: %s vs %s" % (list(a["trace"]), list(b["trace"])))
            differ = False
            both = a["conds"] + b["conds"]
            ca, cb = refine_class(a, both), refine_class(b, both)
            if ca[0] != "?" and cb[0] != "?" and ca[0] != cb[0]:
                differ = True       # value vs error
            elif ca[0] == cb[0] and ca[0] != "?" and not ca[1].startswith("?") and not cb[1].startswith("?") and ca[1] != cb[1]:
                differ = True       # different tag / different error kind
            elif a["closed"] and b["closed"] and a["ret"] != b["ret"]:
                differ = True
            if differ:
                props.add("C02")
                allc = dict(a["conds"] + b["conds"])
                none_leaf = any(r == "is None" and ".Ok.0" in s for s, r in (a["conds"] + b["conds"]))
                kinds = (ca, cb)
                # the plain node refuses the operand types, the returned tree accepts them
                type_err = kinds[0][0] == "Err" and kinds[0][1] in TYPE_ERRS and kinds[1][0] == "Ok"
                if none_leaf:
                    props.add("C04")
                elif type_err:
                    props.add("C03")
                what.append("result: %s vs %s" % (a["ret"], b["ret"]))
            if not props:
                continue
            key = (tuple(sorted(props)), a["ret"], b["ret"], a["trace"], b["trace"])
            if key in seen:
                continue
            seen.add(key)
            out.append({"props": sorted(props), "when": sorted("%s %s" % c for c in set(a["conds"] + b["conds"])), "what": what})
    return out


# ------------------------------------------------------------------------------------------------ constructors

def _strip_result(t):
    if t[0] == "adt" and t[1] == "std::result::Result":
        return (t[2], t[3][0] if t[3] else None)
    return ("Ok", t)


def _unbox(x):
    while x[0] in ("box", "rref"):
        x = x[1]
    return x


def collapse(t):
    """undo lazy refinement for printing: an Expr node all of whose fields are the projections of one value X
    (X was inspected and rebuilt unchanged) is X"""
    if not isinstance(t, tuple) or not t:
        return t
    if t[0] in ("box", "rref"):
        return (t[0], collapse(t[1]))
    if t[0] == "adt":
        fields = tuple(collapse(x) for x in t[3])
        if fields:
            base = None
            ok = True
            for i, x in enumerate(fields):
                y = _unbox(x)
                while y[0] == "proj" and y[2] == ("deref",):
                    y = y[1]
                if y[0] == "proj" and y[2] == ("vf", t[2], i):
                    if base is None:
                        base = y[1]
                    elif base != y[1]:
                        ok = False
                else:
                    ok = False
            if ok and base is not None:
                return base
        return ("adt", t[1], t[2], fields)
    if t[0] == "tup":
        return ("tup", tuple(collapse(x) for x in t[1]))
    return t


def has_call_collection(t):
    """an Expr node one of whose collection fields is the result of an opaque call"""
    if not isinstance(t, tuple) or not t:
        return False
    if t[0] == "adt" and t[1] == EXPR and t[2] in ("Vec", "Map"):
        return any(_unbox(x)[0] in ("call", "op") for x in t[3])
    if t[0] == "adt":
        return any(has_call_collection(x) for x in t[3])
    if t[0] in ("box", "rref"):
        return has_call_collection(t[1])
    return False


def _kids(t):
    out = []
    if t[0] == "adt" and t[1] == EXPR:
        for x in t[3]:
            out.append(_unbox(x))
    return out


def analyse_function(f, te, path):
    """-> {"paths": n, "rewrites": [ {path conds, expected, actual, differences} ], "skipped": reason or None}"""
    b = f.bodies[path]
    names = [l.get("name") or "a%d" % i for i, l in enumerate(b["locals"][1:b["arg_count"] + 1])]
    tys = [f.ty_s(b["locals"][i + 1]["ty"]) for i in range(b["arg_count"])]
    it = Interp(f, max_paths=6000)
    it.model_literal_eq = True
    st = State()
    args = []
    for i in range(b["arg_count"]):
        args.append(evalsum.symbolic_arg(f, it, st, b["locals"][i + 1]["ty"], names[i]))
    # `impl Into<Expr>` parameters: summarised at the instance the grammar actions use (an Expr, identity conversion)
    into = [t for t in tys if INTO_EXPR.match(t)]
    if into:
        it.tsub = {t: EXPR for t in into}
        tys = [EXPR if INTO_EXPR.match(t) else t for t in tys]
    try:
        res = it.run(path, args, st)
    except (PathLimit, Unsupported) as e:
        return {"paths": 0, "rewrites": [], "skipped": "summary failed: %r" % (e,)}

    def is_self_call(name):
        return name == path or name.split("::<")[0] == path or short_callee(name) == short_callee(path)

    recursive = any(e[0] == "call" and is_self_call(e[1]) for s, rv in res for e in s.events)
    expr_args = [i for i, t in enumerate(tys) if t in EXPR_TYPES]

    def argval(s, i):
        v = args[i]
        while v[0] == "ref":
            v = it.load_ptr(s, v[1])
        return v

    outs = []
    for s, rv in res:
        kind, tree = _strip_result(it.resolve(s, rv))
        outs.append((s, rv, tree if kind == "Ok" else None))
    plain = None
    if recursive:
        if len(expr_args) != 1:
            return {"paths": len(res), "rewrites": [], "skipped": "recursive function with %d tree arguments" % len(expr_args)}
    else:
        argterms = [show(norm(("sym", names[i]))) for i in expr_args]
        for s, rv, tree in outs:
            if tree is None:
                continue
            c = collapse(tree)
            kids = [show(norm(k)) for k in _kids(c)]
            if c[0] == "adt" and c[1] == EXPR and all(a in kids for a in argterms):
                if plain is not None and (plain[2] != c[2] or show(norm(plain)) != show(norm(c))):
                    return {"paths": len(res), "rewrites": [], "skipped": "two different plain nodes"}
                plain = c
        if plain is None:
            return {"paths": len(res), "rewrites": [], "skipped": None if len(res) == 1 else "no path returns a node over all tree arguments"}
    rewrites = []
    for s, rv, tree in outs:
        if tree is None:
            continue
        note = None
        if recursive:
            x = argval(s, expr_args[0])
            v = s.known.get(x)
            if x[0] == "adt":
                node = x
            elif isinstance(v, str):
                var = it.variant(EXPR, v)
                node = ("adt", EXPR, v, tuple(("proj", x, ("vf", v, i)) for i in range(len(var["fields"]))))
            else:
                node = x
            # induction hypothesis: the function's result on a sub-tree evaluates like that sub-tree, so the sub-tree
            # may be replaced by the (possibly inspected) result of the recursive call on it
            calls = {}
            for e in s.events:
                if e[0] == "call" and is_self_call(e[1]):
                    for a in e[2]:
                        calls[show(norm(a))] = ("call", e[1], e[2])
                        break
            if node[0] == "adt":
                fl = []
                var = it.variant(EXPR, node[2])
                for i, x_ in enumerate(node[3]):
                    key = show(norm(x_))
                    fty = var["fields"][i]["ty_s"]
                    if key in calls and fty.endswith("Box<%s>" % EXPR):
                        fl.append(("box", calls[key]))
                    elif key in calls and fty == EXPR:
                        fl.append(calls[key])
                    else:
                        if "Vec<" in fty or "BTreeMap<" in fty:
                            note = "collection children are compared as they are"
                        fl.append(x_)
                node = ("adt", EXPR, node[2], tuple(fl))
            expected = node
        else:
            expected = plain
        expected_s = show(norm(collapse(expected)))
        actual_s = show(norm(collapse(tree)))
        if actual_s == expected_s:
            continue
        row = {"when": sorted("%s %s" % norm_cond(c) for c in s.conds), "expected": expected_s, "actual": actual_s, "note": note}
        opaque_pre = [w for w in row["when"] if re.match(r"^(Expr|Value|Box|Vec|BTreeMap)::(eq|ne|cmp|partial_cmp)\(", w)]
        if opaque_pre or has_call_collection(tree):
            # the path was taken because of a comparison this abstraction does not interpret (derived == against a
            # constant item), or it rebuilds a collection through an iterator pipeline: not decided here
            row["differences"] = None
            row["undecided"] = opaque_pre[:2] or ["collection rebuilt by an iterator pipeline"]
            rewrites.append(row)
            continue
        try:
            pe = te.run(s, implant(s, expected), it.frame_counter)
            pr = te.run(s, implant(s, tree), it.frame_counter)
            row["differences"] = differences(pe, pr)
            row["paths_compared"] = (len(pe), len(pr))
        except (PathLimit, Unsupported) as e:
            row["differences"] = None
            row["error"] = repr(e)
        rewrites.append(row)
    return {"paths": len(res), "rewrites": rewrites, "skipped": None, "recursive": recursive}


def implant(st, t):
    """resolved term -> live term of state `st`"""
    if not isinstance(t, tuple) or not t:
        return t
    if t[0] == "rref":
        return ("ref", st.alloc(implant(st, t[1])))
    if t[0] == "box":
        return ("box", implant(st, t[1]))
    if t[0] == "adt":
        return ("adt", t[1], t[2], tuple(implant(st, x) for x in t[3]))
    if t[0] == "tup":
        return ("tup", tuple(implant(st, x) for x in t[1]))
    return t


# ------------------------------------------------------------------------------------------------ whole crate

def roots(f):
    out = []
    for name, self_s in (("parse", EXPR), ("parse", "ruleset::rule::Rule"), ("evaluate", EXPR), ("evaluate_value", "ruleset::RuleSet"),
                         ("evaluate", "ruleset::RuleSet"), ("build", "ruleset::builder::Builder"), ("new", "ruleset::rule::Rule")):
        out += evalsum.find_by_name(f, name, self_s)
    return out


_memo = {}


def analyse(f):
    key = getattr(f, "path", id(f))
    if key in _memo:
        return _memo[key]
    te = TreeEval(f)
    reach = evalsum.reachable_mono(f, roots(f))
    cands = candidates(f, reach)
    rows = {}
    for p in cands:
        rows[p] = analyse_function(f, te, p)
    out = {"functions": rows, "candidates": len(cands), "selftest": selftest(f, te)}
    _memo[key] = out
    return out


def violations_for(f, prop):
    """[(key, what, detail)] of definite differences that concern property `prop`"""
    a = analyse(f)
    out = []
    keys = set()
    for p, r in sorted(a["functions"].items()):
        for rw in r["rewrites"]:
            for d in rw.get("differences") or []:
                k_ = "%s|rewrite|%s|%s" % (prop, p, rw["actual"][:60])
                if prop in d["props"] and k_ in keys:
                    break
                if prop in d["props"]:
                    keys.add(k_)
                    out.append(("%s|rewrite|%s|%s" % (prop, p, rw["actual"][:60]),
                                "%s returns %s where the node %s is meant, and the two evaluate differently: %s" % (p, rw["actual"], rw["expected"], "; ".join(d["what"])),
                                {"function": p, "when": rw["when"], "scenario": d["when"], "expected_tree": rw["expected"], "actual_tree": rw["actual"], "difference": d["what"]}))
                    break
    return out, a


# ------------------------------------------------------------------------------------------------ self-test

def _leaf(n):
    return ("sym", "X%d" % n)


def _node(kind, *kids):
    return ("adt", EXPR, kind, tuple(("box", k) for k in kids))


def _lit_bool(b):
    return ("adt", EXPR, "Value", (("adt", VALUE, "Bool", (("const", "bool", b),)),))


def selftest(f, te):
    """the comparison must tell known-inequivalent trees apart and must not separate known-equivalent ones
    (evaluated by the current tree's own evaluator; which node kinds exist is read from the Expr type)"""
    kinds = set(v["name"] for v in f.adts[EXPR]["variants"])
    res = []

    def cmp(name, a, b, want):
        need = set(re.findall(r"'(\w+)'", repr((a, b)))) & {"Not", "LessThan", "GreaterThanEquals", "And", "If", "Mult", "Equals"}
        if not need <= kinds:
            res.append({"case": name, "skipped": "node kinds %s not present" % sorted(need - kinds)})
            return
        st = State()
        try:
            pa = te.run(st, a)
            pb = te.run(st, b)
        except (PathLimit, Unsupported) as e:
            res.append({"case": name, "error": repr(e), "ok": False})
            return
        d = differences(pa, pb)
        props = sorted(set(p for x in d for p in x["props"]))
        res.append({"case": name, "paths": (len(pa), len(pb)), "properties": props, "ok": bool(props) if want else not props})

    x1, x2 = _leaf(1), _leaf(2)
    cmp("!(a < b) vs a >= b", _node("Not", _node("LessThan", x1, x2)), _node("GreaterThanEquals", x1, x2), ["C02", "C04"])
    cmp("a and false vs false", _node("And", x1, _lit_bool(False)), _lit_bool(False), ["C05", "C03"])
    cmp("a * b vs a * b", _node("Mult", x1, x2), _node("Mult", x1, x2), [])
    cmp("if true then a else b vs a", _node("If", _lit_bool(True), x1, x2), x1, [])
    cmp("a == b vs b == a", _node("Equals", x1, x2), _node("Equals", x2, x1), ["C05"])
    return res


def apply(res, f, prop):
    """report this property's share of the definite differences; -> coverage fragment"""
    from framework import Inconclusive
    try:
        vs, a = violations_for(f, prop)
    except (Unsupported, PathLimit) as e:
        raise Inconclusive("tree-rewrite analysis failed: %r" % (e,))
    for k, w, d in vs:
        res.violation(k, w, d)
    bad = [r for r in a["selftest"] if not r.get("ok") and "skipped" not in r]
    used = any(r["rewrites"] for r in a["functions"].values())
    if bad and used:      # the comparison is only relied upon when some function returns another tree than the plain node
        # deferred like a floor: a violation found on the same run takes precedence over the failed self-test
        res.floor_failures.append("tree-rewrite comparison failed its self-test on this tree's evaluator: %s" % [b_["case"] for b_ in bad])
    res.floor("tree constructors / transformers analysed", a["candidates"], 12)   # a table of constructors referenced as function pointers lowers the number of call sites, not of constructors
    undecided = [(p, rw["when"][:2]) for p, r in a["functions"].items() for rw in r["rewrites"] if rw.get("differences") is None]
    skipped = [(p, r["skipped"]) for p, r in a["functions"].items() if r["skipped"]]
    return {
        "functions_that_build_or_transform_trees": a["candidates"],
        "paths_returning_something_else_than_the_plain_node": sum(len(r["rewrites"]) for r in a["functions"].values()),
        "undecided_paths": undecided[:10], "skipped_functions": skipped[:10],
        "selftest": a["selftest"],
        "rule": "a constructor / transformer path that returns another tree than the plain node is evaluated abstractly next to the plain node by the crate's own evaluator; "
                "a consistent pair of paths with different traces or result classes is a violation (trace -> C05, type error turned into a value -> C03, "
                "a None operand -> C04, any result difference -> C02)",
    }
