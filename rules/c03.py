"""C03 — operators never coerce operands between types (finite tag table, enumerated completely)."""
import dispatch
import optable
import typerules
from framework import Inconclusive

LEVEL = "proof"

CONVERSION_MARKS = ("cast:", "try_from", "::from<", "::from(", "to_i128", "to_f64", "from_str", "from_i128", "try_into", "::parse")


def kind_ops(t, res):
    """node kind -> its single operator function (fail closed otherwise)"""
    out = {}
    for kind in typerules.SUPPORTED:
        if kind not in t["cells_by_kind"]:
            raise Inconclusive("node kind %s has no operator table" % kind)
        out[kind] = [kind]      # the table of a node kind is read through the evaluator's arm (optable.cells_by_kind)
    return out


def run(res, f, tier):
    t = optable.compute(f)
    if not t:
        raise Inconclusive("recursive evaluator not found from Expr::evaluate")
    ops = kind_ops(t, res)
    res.floor("operator node kinds with a type rule", len(ops), 30)
    obligations = 0
    discharged = 0
    samples = []
    for kind, fn in sorted((k, fn_) for k, fns in ops.items() for fn_ in fns):
        cells = t["cells_by_kind"][kind]
        supported = set(typerules.SUPPORTED[kind])
        for combo, outs in sorted(cells.items()):
            if "None" in combo and kind != "Index" or (kind == "Index" and combo[0] == "None"):
                continue  # None rows and columns are C04's
            obligations += 1
            rets = sorted(set(o["ret"] for o in outs))
            if combo in supported:
                ok = True
                if kind in typerules.NO_CONVERSION:
                    for o in outs:
                        if o["ret"].startswith("Ok(") and any(m in o["ret"] for m in CONVERSION_MARKS):
                            ok = False
                            res.violation("C03|converted|%s|%s" % (kind, ",".join(combo)),
                                          "operand of %s%s is converted before the operation: %s" % (kind, combo, o["ret"]),
                                          {"operator_fn": fn, "cell": combo, "outcomes": rets})
                # a supported cell must have at least one non-type-error outcome
                if all(r == "Err(InvalidType)" for r in rets):
                    ok = False
                    res.violation("C03|rejected|%s|%s" % (kind, ",".join(combo)),
                                  "supported operand types %s of %s are rejected with a type error" % (combo, kind),
                                  {"operator_fn": fn, "cell": combo, "outcomes": rets})
                if ok:
                    discharged += 1
            else:
                if rets == ["Err(InvalidType)"] and not any(o["conds"] for o in outs):
                    discharged += 1
                else:
                    res.violation("C03|accepted|%s|%s" % (kind, ",".join(combo)),
                                  "unsupported operand types %s of %s do not yield a plain type error: %s" % (combo, kind, rets),
                                  {"operator_fn": fn, "cell": combo, "outcomes": [dict(when=o["conds"], result=o["ret"]) for o in outs]})
            if len(samples) < 12 and (combo in supported or len(samples) % 3 == 0):
                samples.append({"node": kind, "operands": list(combo), "outcomes": rets})
    # conditions of if/and/or and equality: rows compared with the evaluation-order spec (shared with C05)
    mm, st = dispatch.compare_rows(t, classes=("other",), kinds=("If", "And", "Or"), tags_result_only=True)
    mm2, _ = dispatch.compare_rows(t, kinds=("Equals", "NotEquals"))
    # equality compares structurally (C03: different types are different values, no conversion): every result that is
    # not a constant or a propagated operand error must be the derived comparison of the two operand values
    import evalorder as _eo
    for m_ in mm2:
        c0_, c1_ = _eo.okv(_eo.child(m_["kind"], 0)), _eo.okv(_eo.child(m_["kind"], 1))
        want_ = "Value::eq(%s, %s)" % (c0_, c1_)
        odd = [u for u in m_["unexpected"] if isinstance(u, dict) and u.get("result", "").startswith("Ok(") and u["result"] not in ("Ok(Bool(True))", "Ok(Bool(False))")
               and u["result"] not in ("Ok(Bool(%s))" % want_, "Ok(Bool(Not(%s)))" % want_)]
        if odd:
            mm = mm + [{"kind": m_["kind"], "missing": m_["missing"], "unexpected": odd}]
    # equality: no path may end in a type error, whatever the operand types
    for kind in ("Equals", "NotEquals"):
        for p in t["rows"].get(kind, []):
            if "InvalidType" in p["ret"]:
                mm = mm + [{"kind": kind, "missing": [], "unexpected": [{"when": p["conds"], "result": p["ret"]}]}]
    for kind in ("If", "And", "Or", "Equals", "NotEquals"):
        obligations += 1
        bad = [m for m in mm if m["kind"] == kind]
        if bad:
            res.violation("C03|condition|%s" % kind,
                          "%s does not treat its operand types as specified (non-boolean condition must be a type error; equality of different types is false, never an error)" % kind,
                          {"missing_paths": bad[0]["missing"][:4], "unexpected_paths": bad[0]["unexpected"][:4]})
        else:
            discharged += 1
    # equality is structural: PartialEq for Value must be the derived one
    obligations += 1
    der = [i for i in f.impls if i.get("trait") == "std::cmp::PartialEq" and i["self_s"] == "value::Value"]
    if len(der) == 1 and der[0]["derived"]:
        discharged += 1
    else:
        res.violation("C03|eq-not-structural", "PartialEq for Value is not the compiler-derived structural comparison",
                      {"impls": der})
    import rewrite
    rw_cov = rewrite.apply(res, f, "C03")
    res.coverage = {
        "tree_rewrites": rw_cov,
        "obligations": obligations,
        "discharged": discharged,
        "checker_cmd": "python3 rules/check.py C03",
        "trusted_base": ["rustc MIR (discriminant switches)", "rules/tss.py abstract interpreter", "spec/typerules.py (written from the property text)"],
        "explanation": "every operator function reached from the evaluator was summarised for every assignment of the 10 value tags to its operands; "
                       "cells without a None operand must be in the supported set or yield exactly Err(InvalidType) on every path",
        "operator_functions": len(ops),
        "cells": obligations,
        "samples": samples,
        "exhaustive": True,
    }
    res.assumptions = ["payload values never influence whether a cell is a type error (checked: such cells have no path conditions)"]
