"""Generic algorithms on grammars with semantic action terms (used by C07, C14, C16).

A grammar is a list of productions (lhs, [rhs symbols], term); terminals are the symbols that never occur
as a left-hand side.  Terms are strings over $0..$k (values of the rhs symbols).
"""
import re
from collections import defaultdict

PLACE = re.compile(r"\$(\d+)")


def nonterminals(P):
    return set(l for l, _, _ in P)


def subst_term(term, mapping):
    """replace $i by mapping[i] (strings), simultaneously"""
    return PLACE.sub(lambda m: mapping[int(m.group(1))], term)


def shift_term(term, offset):
    return PLACE.sub(lambda m: "$%d" % (int(m.group(1)) + offset), term)


# partial evaluation after composition (set by grammar.load): FN_TERM(name, nargs) -> the term a crate-local function
# builds from its arguments $0..$n (or None)
FN_TERM = None


def _split_top(inner):
    out, depth, cur, q = [], 0, "", None
    i = 0
    while i < len(inner):
        ch = inner[i]
        if q:
            cur += ch
            if ch == "\\" and i + 1 < len(inner):
                cur += inner[i + 1]
                i += 1
            elif ch == q:
                q = None
        elif ch in "'\"":
            q = ch
            cur += ch
        elif ch in "([{":
            depth += 1
            cur += ch
        elif ch in ")]}":
            depth -= 1
            cur += ch
        elif ch == "," and depth == 0:
            out.append(cur.strip())
            cur = ""
        else:
            cur += ch
        i += 1
    if cur.strip():
        out.append(cur.strip())
    return out


def _close(text, open_at):
    """index of the bracket closing the one at `open_at` (quotes respected)"""
    depth, q = 0, None
    i = open_at
    while i < len(text):
        ch = text[i]
        if q:
            if ch == "\\":
                i += 1
            elif ch == q:
                q = None
        elif ch in "'\"":
            q = ch
        elif ch in "([{":
            depth += 1
        elif ch in ")]}":
            depth -= 1
            if depth == 0:
                return i
        i += 1
    return -1


def partial_eval(term):
    """(1) a function value that became known by composition is applied: `apply::(fn F, a, b)` -> the term F builds;
    (2) a value-dependent action whose conditions became decidable (`'Int' is Int`) is reduced to the outcome taken"""
    import ast
    guard = 0
    while "apply::(fn " in term and FN_TERM is not None and guard < 50:
        guard += 1
        a0 = term.index("apply::(fn ")
        end = _close(term, a0 + len("apply::"))
        if end < 0:
            break
        parts = _split_top(term[a0 + len("apply::("):end])
        name = parts[0][3:]
        t_ = FN_TERM(name, len(parts) - 1)
        if t_ is None:
            break
        term = term[:a0] + subst_term(t_, {j: parts[j + 1] for j in range(len(parts) - 1)}) + term[end + 1:]
    guard = 0
    while "<value-dependent: [" in term and guard < 50:
        guard += 1
        a0 = term.index("<value-dependent: [")
        lst = a0 + len("<value-dependent: ")
        end = _close(term, lst)
        if end < 0 or term[end + 1:end + 2] != ">":
            break
        try:
            outs = ast.literal_eval(term[lst:end + 1])
        except (ValueError, SyntaxError):
            break
        keep = []
        undecided = False
        for conds, t_ in outs:
            verdict = True
            for subj, rel in conds:
                if rel.startswith("is ") and re.fullmatch(r"[A-Z]\w*", subj):
                    if subj != rel[3:]:
                        verdict = False
                else:
                    undecided = True
            if verdict:
                keep.append((conds, t_))
        if undecided or len(keep) != 1:
            break
        term = term[:a0] + keep[0][1] + term[end + 2:]
    return term


def simplify(term):
    prev = None
    while prev != term:
        prev = term
        term = term.replace("[] ++ ", "")
        term = re.sub(r" \+\+ \[\]", "", term)
        if "apply::(fn " in term or "<value-dependent: [" in term:
            term = partial_eval(term)
    return term


def recursive_nts(P):
    nts = nonterminals(P)
    g = defaultdict(set)
    for l, r, _ in P:
        for s in r:
            if s in nts:
                g[l].add(s)
    rec = set()
    for a in nts:
        seen = set()
        todo = list(g[a])
        while todo:
            x = todo.pop()
            if x == a:
                rec.add(a)
                break
            if x in seen:
                continue
            seen.add(x)
            todo.extend(g[x])
    return rec


def intrinsically_recursive(P, keep):
    """nonterminals on a cycle that does not pass through a nonterminal in `keep` (a nonterminal that is
    recursive only through `keep` can be inlined; the result does not depend on the order of inlining)"""
    nts = nonterminals(P)
    g = defaultdict(set)
    for l, r, _ in P:
        if l in keep:
            continue
        for s in r:
            if s in nts and s not in keep:
                g[l].add(s)
    rec = set()
    for a in nts - set(keep):
        seen = set()
        todo = list(g[a])
        while todo:
            x = todo.pop()
            if x == a:
                rec.add(a)
                break
            if x in seen:
                continue
            seen.add(x)
            todo.extend(g[x])
    return rec


def inline_nonrecursive(P, keep):
    """inline every nonterminal that is neither in `keep` nor recursive without passing through `keep`"""
    P = [(l, list(r), t) for l, r, t in P]
    while True:
        rec = intrinsically_recursive(P, keep)
        nts = nonterminals(P)
        cand = [n for n in sorted(nts) if n not in rec and n not in keep]
        # only inline nonterminals that are used somewhere
        used = set(s for _, r, _ in P for s in r)
        cand = [n for n in cand if n in used]
        if not cand:
            # drop unused, non-kept nonterminals
            return [(l, r, t) for l, r, t in P if l in used or l in keep]
        n = cand[0]
        defs = [(r, t) for l, r, t in P if l == n]
        newP = []
        for l, r, t in P:
            if l == n:
                continue
            outs = [(r, t)]
            while True:
                nxt = []
                changed = False
                for rr, tt in outs:
                    if n in rr:
                        i = rr.index(n)
                        changed = True
                        for dr, dt in defs:
                            k = len(dr)
                            # renumber: positions after i shift by k-1; the inlined term reads $i..$i+k-1
                            mapping = {}
                            for j in range(len(rr)):
                                if j < i:
                                    mapping[j] = "$%d" % j
                                elif j == i:
                                    mapping[j] = "(" + shift_term(dt, i) + ")" if not re.fullmatch(r"\$\d+|[A-Za-z:]+\(.*\)|\[.*\]|[A-Za-z:]+", shift_term(dt, i)) else shift_term(dt, i)
                                else:
                                    mapping[j] = "$%d" % (j + k - 1)
                            nxt.append((rr[:i] + dr + rr[i + 1:], subst_term(tt, mapping)))
                    else:
                        nxt.append((rr, tt))
                outs = nxt
                if not changed:
                    break
            for rr, tt in outs:
                newP.append((l, rr, simplify(tt)))
        P = newP


def bisimulation_classes(Pa, Pb):
    """coarsest partition of the nonterminals of two grammars (tagged 'a:'/'b:') such that equivalent
    nonterminals have the same productions up to equivalence of the nonterminals mentioned"""
    P = [("a:" + l, [("a:" + s) if s in nonterminals(Pa) else s for s in r], t) for l, r, t in Pa] + \
        [("b:" + l, [("b:" + s) if s in nonterminals(Pb) else s for s in r], t) for l, r, t in Pb]
    nts = sorted(nonterminals(P))
    cls = {n: 0 for n in nts}
    while True:
        sig = {}
        for n in nts:
            s = frozenset((tuple(("#%d" % cls[x]) if x in cls else x for x in r), t) for l, r, t in P if l == n)
            sig[n] = (cls[n], s)
        ids = {}
        new = {}
        for n in nts:
            new[n] = ids.setdefault(sig[n], len(ids))
        if new == cls or len(set(new.values())) == len(set(cls.values())):
            cls = new
            break
        cls = new
    return cls, P


# ---------------------------------------------------------------------- Earley (with tree evaluation)

def earley_parse(P, start, tokens, max_trees=2):
    """-> list of evaluated terms (canonical strings) of the parses of `tokens` from `start` (empty = reject)"""
    nts = nonterminals(P)
    by_lhs = defaultdict(list)
    for idx, (l, r, t) in enumerate(P):
        by_lhs[l].append(idx)
    n = len(tokens)
    # item: (prod idx, dot, origin); chart[i] = dict item -> set of backpointer tuples
    chart = [dict() for _ in range(n + 1)]

    def add(i, item, bp):
        d = chart[i]
        if item not in d:
            d[item] = []
            d[item].append(bp)
            return True
        if bp not in d[item] and len(d[item]) < 4:
            d[item].append(bp)
        return False

    for pi in by_lhs[start]:
        add(0, (pi, 0, 0), None)
    for i in range(n + 1):
        agenda = list(chart[i].keys())
        while agenda:
            item = agenda.pop()
            pi, dot, org = item
            l, r, t = P[pi]
            if dot < len(r):
                sym = r[dot]
                if sym in nts:
                    # a nonterminal may also appear in the input (sentential forms): it is then a leaf
                    if i < n and tokens[i] == sym:
                        add(i + 1, (pi, dot + 1, org), (item, None, i))
                    for qi in by_lhs[sym]:
                        if add(i, (qi, 0, i), None):
                            agenda.append((qi, 0, i))
                    # nullable completion: if sym already completed at i
                    for (qi, qd, qo) in list(chart[i].keys()):
                        if qo == i and P[qi][0] == sym and qd == len(P[qi][1]):
                            ni = (pi, dot + 1, org)
                            if add(i, ni, (item, (qi, qd, qo), i)):
                                agenda.append(ni)
                elif i < n and tokens[i] == sym:
                    add(i + 1, (pi, dot + 1, org), (item, None, i))
            else:
                for (qi, qd, qo), _ in list(chart[org].items()):
                    if qd < len(P[qi][1]) and P[qi][1][qd] == l:
                        ni = (qi, qd + 1, qo)
                        if add(i, ni, ((qi, qd, qo), item, org)):
                            agenda.append(ni)
    results = []
    memo = {}

    def build(item, end, depth=0):
        """evaluated term strings for the completed/partial item ending at `end`: list of child-value lists"""
        key = (item, end)
        if key in memo:
            return memo[key]
        memo[key] = []  # cycle guard
        pi, dot, org = item
        if dot == 0:
            memo[key] = [[]]
            return memo[key]
        outs = []
        for bp in chart[end][item]:
            if bp is None:
                continue
            prev, child, mid = bp
            for pre in build(prev, mid, depth + 1):
                if child is None:
                    outs.append(pre + [tokens[mid] + "@%d" % mid])
                else:
                    for cv in value(child, end, depth + 1):
                        outs.append(pre + [cv])
                if len(outs) >= max_trees:
                    break
            if len(outs) >= max_trees:
                break
        memo[key] = outs
        return outs

    vmemo = {}

    def value(item, end, depth=0):
        key = (item, end)
        if key in vmemo:
            return vmemo[key]
        pi, dot, org = item
        l, r, t = P[pi]
        vals = []
        for kids in build(item, end, depth):
            vals.append(simplify(subst_term(t, {j: kids[j] for j in range(len(kids))})))
        vmemo[key] = vals
        return vals

    for item in chart[n]:
        pi, dot, org = item
        if org == 0 and P[pi][0] == start and dot == len(P[pi][1]):
            for v in value(item, n):
                if v not in results:
                    results.append(v)
    return results


def shortest_expansions(P):
    """nonterminal -> a shortest terminal string it derives (list of terminals)"""
    nts = nonterminals(P)
    best = {}
    changed = True
    while changed:
        changed = False
        for l, r, t in P:
            if all((s not in nts) or (s in best) for s in r):
                w = []
                for s in r:
                    w += best[s] if s in nts else [s]
                if l not in best or len(w) < len(best[l]):
                    best[l] = w
                    changed = True
    return best


def context_of(P, start, target, best):
    """(prefix, suffix) terminal strings such that start =>* prefix target suffix  (BFS over productions)"""
    nts = nonterminals(P)
    ctx = {start: ([], [])}
    todo = [start]
    while todo:
        a = todo.pop(0)
        pre, suf = ctx[a]
        for l, r, t in P:
            if l != a:
                continue
            for i, s in enumerate(r):
                if s in nts and s not in ctx:
                    left = []
                    for x in r[:i]:
                        left += best.get(x, [x]) if x in nts else [x]
                    right = []
                    for x in r[i + 1:]:
                        right += best.get(x, [x]) if x in nts else [x]
                    ctx[s] = (pre + left, right + suf)
                    todo.append(s)
    return ctx.get(target)
