"""C17 — conversions between Value and Rust types are lossless or fail.

Decided: every `From<T> for Value` wraps its argument unchanged (integers through a widening that is
lossless by type) in the matching variant; every `TryFrom<Value> for T`, for each of the 10 value tags,
returns the payload unchanged for the matching tag (narrower integers through one exact-range std
TryFrom<i128>, overflow mapped to NumericOverflow) and otherwise a type error carrying the original
value; collections convert element-wise with early error; no lossy cast, panic site or wrapping call."""
import re

import hazards
from framework import Inconclusive
from norm import norm, norm_cond, show
from tss import Interp, State

LEVEL = "proof"
VALUE = "value::Value"
LABEL = re.compile(r"to_owned\('[^']*'\)|'[^']*'")

INTS = ["i8", "i16", "i32", "i64", "i128", "u8", "u16", "u32", "u64", "u128", "usize", "isize"]
TAG_OF = {"std::string::String": "String", "&str": "String", "f64": "Float", "f32": "Float", "rust_decimal::Decimal": "Decimal",
          "bool": "Bool", "chrono::DateTime<chrono::Utc>": "DateTime", "chrono::TimeDelta": "Duration"}
for _t in INTS:
    TAG_OF[_t] = "Int"


def summarize(f, path, args):
    it = Interp(f)
    st = State()
    res = it.run(path, args, st)
    out = []
    for s, rv in res:
        out.append((tuple(sorted(set(norm_cond(c) for c in s.conds))), LABEL.sub("'*'", show(norm(it.resolve(s, rv))))))
    return sorted(out), it


def closure_summary(f, path):
    """summary of a closure body with symbolic argument(s) e / (k, v)"""
    b = f.bodies[path]
    it = Interp(f)
    st = State()
    fid = it.new_frame(st)
    st.frames[fid][1] = ("closure", path, ())
    nargs = b["arg_count"] - 1
    for i in range(nargs):
        ty = f.ty(b["locals"][i + 2]["ty"])
        if ty["k"] == "tuple":
            st.frames[fid][i + 2] = ("tup", tuple(("sym", "e%d" % j) for j in range(len(ty["args"]))))
        else:
            st.frames[fid][i + 2] = ("sym", "e")
    res = it.run_body(b, st, fid, 0)
    return sorted((tuple(sorted(set(norm_cond(c) for c in s.conds))), show(norm(it.resolve(s, rv)))) for s, rv in res)


def element_fn_summary(f, spec):
    """summary of the function mapped over the elements: a closure, a crate-local function item, or a trait method item
    (`V::into`, `V::try_from`), with the element named e / (e0, e1)"""
    from norm import short_callee as _sc
    if spec.startswith("closure(") and spec.endswith(")"):
        path = spec[len("closure("):-1]
        if path not in f.bodies:
            path = path.split(", ")[0]
        return closure_summary(f, path) if path in f.bodies else None
    if not spec.startswith("fn "):
        return None
    name = spec[3:]
    local = [d for d, b in f.bodies.items() if not b.get("parent") and b["arg_count"] == 1 and (_sc(d) == name or d == name)]
    if len(local) == 1:
        b = f.bodies[local[0]]
        it = Interp(f)
        st = State()
        ty = f.ty(b["locals"][1]["ty"])
        arg = ("tup", tuple(("sym", "e%d" % j) for j in range(len(ty["args"])))) if ty["k"] == "tuple" else ("sym", "e")
        res = it.run(local[0], [arg], st)
        return sorted((tuple(sorted(set(norm_cond(c) for c in s.conds))), show(norm(it.resolve(s, rv)))) for s, rv in res)
    # `V::into` as a function item is `Value::from` of the element (Into is From with the sides swapped)
    m = re.fullmatch(r"(\w+)::into<(\w+)>", name)
    if m:
        return [((), "%s::from<%s>(e)" % (m.group(2), m.group(1)))]
    return [((), "%s(e)" % name)]


def loop_elementwise(outs, src, item, wrap, cond=None, err=None):
    """the unrolled shape of `for x in SRC { out.push(conv(x)) }`: for k = 0, 1, .. items the result is a fresh Vec with
    conv(elem_i) pushed in order; with a fallible conversion the first failing element ends the loop with its error.
    `item`, `cond`, `err` are format strings over the element term."""
    SRC = "into_iter(%s)" % src
    paths = dict((frozenset(c), r) for c, r in outs)
    if len(paths) != len(outs):
        return False
    ks = 0
    while frozenset([("next(%s, #%d)" % (SRC, i), "ok") for i in range(ks)] + [("next(%s, #%d)" % (SRC, ks), "fails")]
                    + [(cond % ("elem%d(%s)" % (i, SRC)), "ok") for i in range(ks) if cond]) in paths:
        ks += 1
    if ks < 2:
        return False
    seen = 0
    for k in range(ks):
        conds = frozenset([("next(%s, #%d)" % (SRC, i), "ok") for i in range(k)] + [("next(%s, #%d)" % (SRC, k), "fails")]
                          + [(cond % ("elem%d(%s)" % (i, SRC)), "ok") for i in range(k) if cond])
        r = paths[conds]
        chain = None
        for base in ("Vec::new()", "Vec::with_capacity(Vec::len(%s))" % src):
            c = base
            for i in range(k):
                c = "push(%s, %s)" % (c, item % ("elem%d(%s)" % (i, SRC)))
            if r == wrap % c:
                chain = c
        if chain is None:
            return False
        seen += 1
        if cond and k > 0:
            # element k-1 fails after k-1 successes
            ec = frozenset([("next(%s, #%d)" % (SRC, i), "ok") for i in range(k)] + [(cond % ("elem%d(%s)" % (i, SRC)), "ok") for i in range(k - 1)]
                           + [(cond % ("elem%d(%s)" % (k - 1, SRC)), "fails")])
            if paths.get(ec) != err % ("elem%d(%s)" % (k - 1, SRC)):
                return False
            seen += 1
    return seen == len(paths)


def run(res, f, tier):
    froms, tryfroms = [], []
    for d, b in f.bodies.items():
        im = b.get("impl")
        if not im or b["kind"] != "AssocFn":
            continue
        if im.get("trait") == "std::convert::From" and im["self_s"] == VALUE and b["name"] == "from":
            froms.append((d, b, im))
        if im.get("trait") == "std::convert::TryFrom" and im["trait_args"] == [VALUE] and b["name"] == "try_from":
            tgt = im["self_s"].split("<")[0]
            if tgt in f.adts and f.adts[tgt].get("local") and not tgt.startswith("value::"):
                # a crate-private helper type outside the value module (the evaluator's own `Truth(bool)`): not part of the
                # conversion API the property is about; what the evaluator does with it is C02-C05's
                res.notes.append("not a conversion of the public API: TryFrom<Value> for %s" % im["self_s"])
                continue
            tryfroms.append((d, b, im))
    res.floor("From<_> for Value impls", len(froms), 18)
    res.floor("TryFrom<Value> for _ impls", len(tryfroms), 17)
    obligations = discharged = 0
    samples = []

    def ob(ok, key, what, detail=None):
        nonlocal obligations, discharged
        obligations += 1
        if ok:
            discharged += 1
        else:
            res.violation(key, what, detail)

    # ---- hazards in every conversion body (and their closures)
    bodies = [d for d, _, _ in froms + tryfroms]
    for d in list(bodies):
        bodies += [c["def"] for c in f.closures_of(d)]
    nsites = 0
    for d in bodies:
        for s in hazards.sites(f, f.bodies[d]):
            nsites += 1
            if s["cls"] in ("partial", "silent"):
                ob(False, hazards.key("C17", d, s), "%s in %s at %s: %s" % (s["detail"], d, s["span"], s["reason"]), {"site": s})
    # ---- into Value
    for d, b, im in froms:
        src = im["trait_args"][0]
        outs, it = summarize(f, d, [("sym", "x")])
        key = "C17|from|%s" % src
        if src in TAG_OF:
            tag = TAG_OF[src]
            ok = len(outs) == 1 and not outs[0][0]
            r = outs[0][1] if outs else ""
            if src in INTS and src != "i128":
                good = r in ("Int(i128::from<%s>(x))" % src, "Int(cast:IntToInt:%s->i128(x))" % src) and \
                    hazards.cast_lossless("IntToInt", src, "i128")[0]
            elif src == "f32":
                good = r in ("Float(f64::from<f32>(x))", "Float(cast:FloatToFloat:f32->f64(x))")
            else:
                good = r == "%s(x)" % tag
            ob(ok and good, key, "From<%s> for Value does not wrap its argument unchanged in Value::%s: %s" % (src, tag, outs), {"fn": d, "summary": outs})
        elif src == "std::option::Option<value::Value>":
            ob(outs == [((("x", "is None"),), "None"), ((("x", "is Some"),), "x.Some.0")], key, "From<Option<Value>>: Some(v) must give v and None must give Value::None: %s" % outs)
        elif src.startswith("std::vec::Vec<") or "Map<" in src:
            tag = "Vec" if src.startswith("std::vec::Vec<") else "Map"
            r = outs[0][1] if len(outs) == 1 else ""
            m = re.fullmatch(r"%s\(Map::collect\(IntoIter::map\(into_iter\(x\), (closure\(.*\)|fn .*)\)\)\)" % tag, r)
            good = bool(m)
            if m:
                cs = element_fn_summary(f, m.group(1))
                want = [((), "Value::from<V>(e)")] if tag == "Vec" else [((), "tuple(String::from<K>(e0), Value::from<V>(e1))")]
                good = cs == want
            if not good and tag == "Vec":
                good = loop_elementwise(outs, "x", "Value::from<V>(%s)", "Vec(%s)")
            ob(good, key, "From<%s> for Value must convert element-wise (into_iter().map(Into::into).collect()) into Value::%s: %s" % (src, tag, outs))
        else:
            ob(False, key, "From<%s> for Value: a conversion the specification does not know" % src, {"summary": outs})
        if len(samples) < 6:
            samples.append({"impl": "From<%s> for Value" % src, "summary": [r for _, r in outs]})
    # ---- out of Value: 10 tags per impl
    tags = f.variant_names(VALUE)
    for d, b, im in tryfroms:
        dst = im["self_s"]
        for tag in tags:
            var = next(v for v in f.adts[VALUE]["variants"] if v["name"] == tag)
            v = ("adt", VALUE, tag, tuple(("sym", "x.%d" % j) for j in range(len(var["fields"]))))
            outs, it = summarize(f, d, [v])
            key = "C17|tryfrom|%s|%s" % (dst, tag)
            orig = "%s(x.0)" % tag if var["fields"] else tag
            type_err = [((), "Err(UnexpectedValueType(%s, '*'))" % orig)]
            if dst in TAG_OF:
                want_tag = TAG_OF[dst]
                if tag != want_tag:
                    want = type_err
                elif dst in INTS and dst != "i128":
                    c = "%s::try_from<i128>(x.0)" % dst
                    want = sorted([(((c, "fails"),), "Err(NumericOverflow(%s::try_from<i128>!err(x.0)))" % dst),
                                   (((c, "ok"),), "Ok(%s::try_from<i128>!(x.0))" % dst)])
                else:
                    want = [((), "Ok(x.0)")]
                ob(outs == want, key, "TryFrom<Value> for %s on a Value::%s: expected %s, found %s" % (dst, tag, want, outs), {"fn": d})
            elif dst.startswith("std::vec::Vec<") or "Map<" in dst:
                want_tag = "Vec" if dst.startswith("std::vec::Vec<") else "Map"
                if tag != want_tag:
                    ob(outs == type_err, key, "TryFrom<Value> for %s on a Value::%s: expected %s, found %s" % (dst, tag, type_err, outs))
                else:
                    r = outs[0][1] if len(outs) == 1 and not outs[0][0] else ""
                    if dst == "std::collections::BTreeMap<std::string::String, value::Value>":
                        good = r == "Ok(x.0)"
                    elif dst == "std::collections::HashMap<std::string::String, value::Value>":
                        good = r == "Ok(IntoIter::collect(into_iter(x.0)))"
                    else:
                        m = re.fullmatch(r"Map::collect\(IntoIter::map\(into_iter\(x\.0\), (closure\(.*\)|fn .*)\)\)", r)
                        good = bool(m)
                        if m:
                            cs = element_fn_summary(f, m.group(1))
                            if want_tag == "Vec":
                                good = cs == [((), "V::try_from<Value>(e)")]
                            else:
                                # (key, val) -> val.try_into().map(|val| (key, val)) : the key is kept, failure propagates
                                good = cs == sorted([((("V::try_from<Value>(e1)", "fails"),), "Err(V::try_from<Value>!err(e1))"),
                                                     ((("V::try_from<Value>(e1)", "ok"),), "Ok(tuple(e0, V::try_from<Value>!(e1)))")])
                    if not good and want_tag == "Vec":
                        good = loop_elementwise(outs, "x.0", "V::try_from<Value>!(%s)", "Ok(%s)", cond="V::try_from<Value>(%s)", err="Err(V::try_from<Value>!err(%s))")
                    ob(good, key, "TryFrom<Value> for %s must convert every element (early error) and keep keys: %s" % (dst, outs))
            else:
                ob(False, key, "TryFrom<Value> for %s: a conversion the specification does not know" % dst)
        if len(samples) < 12:
            samples.append({"impl": "TryFrom<Value> for %s" % dst, "on Value::Int": [r for _, r in summarize(f, d, [("adt", VALUE, "Int", (("sym", "x.0"),))])[0]]})
    import control
    controls = control.hazard_controls()
    res.coverage = {
        "positive_controls": controls,
        "obligations": obligations,
        "discharged": discharged,
        "checker_cmd": "python3 rules/check.py C17",
        "trusted_base": ["rustc MIR", "rules/tss.py", "std: i128::from<T> and T::try_from<i128> are exact", "std: Result-collect stops at the first error"],
        "explanation": "%d From impls (one summary each) and %d TryFrom impls x 10 value tags were summarised and compared with the conversion rules; "
                       "%d cast/call/assert sites of these bodies and their closures were classified" % (len(froms), len(tryfroms), nsites),
        "from_impls": len(froms), "tryfrom_impls": len(tryfroms), "cells": len(tryfroms) * len(tags), "hazard_sites": nsites,
        "samples": samples,
        "exhaustive": True,
    }
    res.assumptions = ["round-trip equality follows from wrap-unchanged / unwrap-unchanged; equality of std conversions themselves is trusted"]
