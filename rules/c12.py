"""C12 — evaluation is deterministic, free of side effects and schedule-independent (structural premises).

An effect/purity argument assembled from type-level and call-graph facts: no hidden state, inputs only
read, no ambient nondeterminism on evaluation paths, no hand-written polling.  Determinism is claimed
*given* deterministic, self-contained user functions."""
import re

import evalsum
import hazards
from c01 import entry_points
from framework import Inconclusive
from mir import callee_of

LEVEL = "other"

INTERIOR = re.compile(r"(^|::)(UnsafeCell|Cell|RefCell|OnceCell|LazyCell|Mutex|RwLock|Condvar|Once|OnceLock|LazyLock|Atomic[A-Za-z0-9]*|Rc|Weak|Arc)$|^\*raw$")
# the crate's data types whose fields must be plain owned data
DATA_TYPES = ["ruleset::RuleSet", "ruleset::rule::Rule", "expr::Expr", "value::Value", "symbol::Symbols", "function::UserFunctions",
              "expr::index::Index", "ruleset::Outcome", "expr::eval::context::EvalContext", "ruleset::builder::Builder"]
ALLOWED_STATICS = {
    # lazy_static once-cell holding an empty RuleSet that is only ever read (Expr::evaluate's ruleset)
    "lazy_static::lazy::Lazy<ruleset::RuleSet>": "lazy_static once-cell of an empty RuleSet; initialised once with Default, afterwards only dereferenced",
}
# a once-initialised cell around one of the crate's own plain-data types (lazy_static's Lazy, std's LazyLock / OnceLock):
# the only interior mutation is the one-time initialisation; afterwards it is dereferenced (that the payload type is
# plain owned data is rule 2; that nothing takes a mutable borrow of a static is checked below)
ONCE_CELL_OF_DATA = re.compile(r"^(lazy_static::lazy::Lazy|std::sync::LazyLock|std::sync::OnceLock|std::cell::LazyCell)<(ruleset::RuleSet|symbol::Symbols|function::UserFunctions)(, fn\(\) -> [\w:]+)?>$")
DENY = [
    (re.compile(r"(chrono::(Utc|Local)::now|std::time::(Instant|SystemTime)::now|::elapsed\b)"), "clock"),
    (re.compile(r"(^|::)(rand|getrandom|fastrand)::|RandomState|DefaultHasher"), "randomness / hash seeds"),
    (re.compile(r"std::collections::(hash_map|hash_set|HashMap|HashSet)"), "hash-ordered collection"),
    (re.compile(r"std::thread::|std::sync::(mpsc|Mutex|RwLock|Condvar|Barrier)|std::sync::atomic"), "threads / locks / atomics"),
    (re.compile(r"std::(env|fs|net|process|io::(stdin|stdout|stderr))::|std::io::(stdin|stdout|stderr)\b"), "environment / filesystem / network / process / stdio"),
    (re.compile(r"std::task::(Waker|Context|RawWaker)|futures::|tokio::|::(select|join|spawn|block_on)\b"), "manual polling / task machinery"),
    (re.compile(r"fmt::Pointer|new_pointer"), "pointer formatting"),
]


# functions whose result depends on something other than their arguments; searched in the whole monomorphic instance
# graph (upstream MIR included), so a dependency API that consults the environment behind an innocent name is found
AMBIENT_SOURCES = [
    (re.compile(r"^std::time::(SystemTime|Instant)::now$|^chrono::.*::now$|std::sys::.*time::.*::now"), "clock"),
    (re.compile(r"^chrono::offset::local::"), "host time zone (TZ, /etc/localtime)"),
    (re.compile(r"^std::env::|^std::sys::.*::os::(getenv|env)"), "process environment"),
    (re.compile(r"^std::fs::|^std::net::|^std::process::|^std::os::"), "filesystem / network / process"),
    (re.compile(r"getrandom|^rand::|RandomState::new$|hashmap_random_keys"), "randomness / hash seeds"),
    (re.compile(r"^std::thread::"), "threads"),
    (re.compile(r"^std::io::stdio::|^std::io::(stdin|stdout|stderr)$"), "standard streams"),
]
PANIC_MACHINERY = re.compile(r"^(core|std)::(panicking|panic|rt)::|::begin_panic|option::(expect|unwrap)_failed|result::unwrap_failed|"
                             r"alloc::alloc::handle_alloc_error|raw_vec::capacity_overflow|slice::index::|str::slice_error")


def ambient_reach(f, entries):
    """-> (instances visited, [(source path, family, chain of callers up to the first crate-local function)])"""
    m = f.mono
    nodes = m["nodes"]
    adj = {}
    for a, b, k in m["edges"]:
        if k != "drop_unwind":
            adj.setdefault(a, []).append(b)
    todo = [i for i, nd in enumerate(nodes) if nd["path"] in entries]
    parent = {}
    seen = set()
    while todo:
        x = todo.pop()
        if x in seen:
            continue
        seen.add(x)
        if PANIC_MACHINERY.search(nodes[x]["path"]):
            continue     # the panic hook reads RUST_BACKTRACE; panics themselves are C01's subject
        for y in adj.get(x, []):
            if y not in seen:
                parent.setdefault(y, x)
                todo.append(y)
    hits = {}
    for i in seen:
        p = nodes[i]["path"]
        for rx, fam in AMBIENT_SOURCES:
            if rx.search(p):
                chain = []
                x = i
                while x in parent and len(chain) < 40:
                    x = parent[x]
                    chain.append(nodes[x]["path"])
                    if nodes[x]["local"]:
                        break
                local = chain[-1] if chain and nodes[x]["local"] else "?"
                key = (p, local)
                if key not in hits:
                    hits[key] = (p, fam, local, chain[:6])
                break
    return len(seen), sorted(hits.values())


def run(res, f, tier):
    obligations = discharged = 0

    def ob(ok, key, what, detail=None):
        nonlocal obligations, discharged
        obligations += 1
        if ok:
            discharged += 1
        else:
            res.violation(key, what, detail)

    # a once-initialised cell around a crate-local type made of plain owned data (checked field by field, transitively
    # through crate-local types) is read-only state like the empty RuleSet
    ONCE_CELL = re.compile(r"^(lazy_static::lazy::Lazy|std::sync::LazyLock|std::sync::OnceLock|std::cell::LazyCell)<([\w:]+)(, fn\(\) -> [\w:]+)?>$")

    def plain_data(adt_path, seen=None):
        seen = seen or set()
        if adt_path in seen:
            return True
        seen.add(adt_path)
        a_ = f.adts.get(adt_path)
        if not a_ or not a_.get("local"):
            return False
        for v_ in a_["variants"]:
            for fl_ in v_["fields"]:
                if fl_.get("freeze") is False or fl_.get("ty_s", "").startswith("&mut "):
                    return False
                for m_ in fl_.get("mentions", []):
                    base_ = m_.split("<")[0]
                    if INTERIOR.search(base_):
                        return False
                    if base_ in f.adts and f.adts[base_].get("local") and not plain_data(base_, seen):
                        return False
        return True

    def once_cell_of_plain_data(ty_s):
        m_ = ONCE_CELL.match(ty_s)
        return bool(m_) and plain_data(m_.group(2))

    # ---- 1. no hidden state: statics, thread-locals
    for s in f.statics:
        key = "C12|static|%s" % s["path"]
        if s["mut"]:
            ob(False, key, "`static mut` %s at %s" % (s["path"], s["span"]))
        elif s["thread_local"]:
            ob(False, key, "thread-local static %s at %s" % (s["path"], s["span"]))
        elif not s["freeze"] and s["ty_s"] not in ALLOWED_STATICS and not ONCE_CELL_OF_DATA.match(s["ty_s"]) and not once_cell_of_plain_data(s["ty_s"]):
            ob(False, key, "static %s: %s has interior mutability (state shared between evaluations)" % (s["path"], s["ty_s"]), s)
        else:
            ob(True, key, "")
    # the allow-listed once-cell must only be read: no mutable borrow of a static anywhere
    for d, b in f.bodies.items():
        for blk in b["blocks"]:
            for st in blk["stmts"]:
                if st["k"] == "assign" and st["rv"]["k"] in ("ref", "rawptr") and st["rv"].get("bk") == "mut":
                    pass
    # ---- 2. plain owned data in the data types
    nfields = 0
    for path in DATA_TYPES:
        a = f.adts.get(path)
        if not a:
            raise Inconclusive("data type %s not found" % path)
        for v in a["variants"]:
            for fl in v["fields"]:
                nfields += 1
                bad = [m for m in fl.get("mentions", []) if INTERIOR.search(m.split("<")[0])]
                frozen = fl.get("freeze")
                if frozen is None:
                    frozen = True if fl["ty_s"].startswith("&") else None
                key = "C12|field|%s::%s.%s" % (path, v["name"], fl["name"])
                ob(not bad and frozen is not False, key,
                   "field %s of %s has type %s: interior mutability / shared ownership / raw pointer (%s)" % (fl["name"], path, fl["ty_s"], bad or "not Freeze"))
    # ---- 3. no unsafe code written by hand
    user_unsafe = [u for u in f.raw["unsafe_blocks"] if u["source"] != "CompilerGenerated"]
    for u in user_unsafe:
        ob(False, "C12|unsafe|%s" % u["owner"], "unsafe block in %s at %s" % (u["owner"], u["span"]), u)
    for i in f.impls:
        if i.get("unsafe") and not i.get("derived"):      # `derive(Clone, Copy)` emits `unsafe impl TrivialClone`
            ob(False, "C12|unsafe-impl|%s" % i["def"], "unsafe impl %s" % i.get("trait_ref"))
    for fn in f.raw["fns"]:
        if fn["unsafe"]:
            ob(False, "C12|unsafe-fn|%s" % fn["path"], "unsafe fn %s" % fn["path"])
    ob(True, "C12|unsafe|none", "")
    # ---- 4. inputs are only read: signatures of the evaluation entry points
    entries = entry_points(f)
    if len(entries) != 3:
        raise Inconclusive("evaluation entry points not found")
    for e in entries:
        sig = f.fns.get(e)
        if not sig:
            raise Inconclusive("no signature for %s" % e)
        ins = sig["inputs"]
        ok = all(i.startswith("&") and not i.startswith("&mut") and "&'" not in i[:2] or re.match(r"&('\w+ )?(?!mut )", i) for i in ins) and not any(re.match(r"&('\w+ )?mut ", i) for i in ins)
        ob(ok and all(i.startswith("&") for i in ins), "C12|signature|%s" % e, "entry point %s must take the ruleset/expression and the input by shared reference only: %s" % (e, ins))
    # ---- 5. no ambient nondeterminism / task machinery on evaluation paths
    reach = evalsum.reachable_local(f, entries)
    ncalls = 0
    deny_hits = []
    for p in reach:
        for s in hazards.sites(f, f.bodies[p]):
            if s["kind"] not in ("call", "fnref"):
                continue
            ncalls += 1
            full = s.get("full", s["detail"])
            for rx, why in DENY:
                if rx.search(full) and "future::get_context" not in full:
                    deny_hits.append((p, s, why))
        for blk in f.bodies[p]["blocks"]:
            for st in blk["stmts"]:
                if st["k"] == "assign" and st["rv"]["k"] == "cast" and "Expose" in st["rv"]["ck"]:
                    deny_hits.append((p, {"detail": "pointer-to-integer cast", "span": st["span"], "ord": 0, "kind": "cast"}, "address-dependent value"))
    for p, s, why in deny_hits:
        ob(False, "C12|ambient|%s|%s#%d" % (p, s["detail"], s.get("ord", 0)), "%s reached from evaluation: %s in %s at %s" % (why, s["detail"], p, s["span"]))
    ob(True, "C12|ambient|none", "")
    visited, amb = ambient_reach(f, set(entries))
    if visited < 1000:
        raise Inconclusive("the instance graph reachable from evaluation has only %d nodes" % visited)
    by_local = {}
    for p, fam, local, chain in amb:
        by_local.setdefault((fam, local), []).append((p, chain))
    for (fam, local), xs in sorted(by_local.items()):
        ob(False, "C12|ambient-reach|%s|%s" % (local, fam), "%s consulted during evaluation: %s reaches %s (through %s)" % (
            fam, local, ", ".join(sorted(set(x[0] for x in xs))[:4]), " <- ".join(xs[0][1][:4])), {"sources": [x[0] for x in xs][:10]})
    ob(True, "C12|ambient-reach|none", "")
    # ---- 6. schedule independence: suspension only by awaiting; no hand-written futures
    fut_impls = [i for i in f.impls if i.get("trait") in ("std::future::Future", "std::task::Wake", "futures_core::Stream")]
    for i in fut_impls:
        ob(False, "C12|manual-future|%s" % i["self_s"], "hand-written impl %s for %s (polling order could influence results)" % (i["trait"], i["self_s"]))
    yields = 0
    bad_yields = []
    awaited = {}
    for p in reach:
        b = f.bodies[p]
        for blk in b["blocks"]:
            t = blk["term"]
            if t["k"] == "yield":
                yields += 1
                if not (t.get("exp") and "Await" in t["exp"]):
                    bad_yields.append((p, t["span"]))
            if t["k"] == "call" and not blk["cleanup"]:
                c = callee_of(t)
                if c and c.get("trait") == "std::future::IntoFuture":
                    k = f.ty_s(c["args"][0]) if c.get("args") else "?"
                    awaited[k] = awaited.get(k, 0) + 1
    for p, span in bad_yields:
        ob(False, "C12|yield|%s" % p, "suspension point that is not an `.await` in %s at %s" % (p, span))
    ob(True, "C12|suspension|awaits-only", "")
    res.floor("bodies reachable from evaluation", len(reach), 60)
    res.floor("fields of the data types", nfields, 40)
    res.floor("await points", yields, 8)   # one per evaluating construct at least: the evaluator recursion, the helpers of if / and / or / equality, lists, maps, calls
    import control
    controls = control.effect_controls()
    res.coverage = {
        "positive_controls": controls,
        "explanation": "type-level and call-graph premises of determinism: statics (%d), fields of the %d data types (%d), hand-written unsafe (%d), entry-point signatures (3), "
                       "resolved callees reachable from the entry points (%d call sites in %d bodies) against a deny-list, suspension points (%d, all `.await`), hand-written Future impls (%d)"
                       % (len(f.statics), len(DATA_TYPES), nfields, len(user_unsafe), ncalls, len(reach), yields, len(fut_impls)),
        "obligations": obligations, "discharged": discharged,
        "statics": [{"path": s["path"], "type": s["ty_s"], "freeze": s["freeze"], "allowed_because": ALLOWED_STATICS.get(s["ty_s"])} for s in f.statics],
        "awaited_future_kinds": awaited,
        "rule": "no mutable / interior-mutable static or field, no thread-local, no hand-written unsafe, shared-reference entry points, no deny-listed callee, awaits only",
        "samples": [{"entry": e, "inputs": f.fns[e]["inputs"]} for e in entries],
        "exhaustive": True,
    }
    res.assumptions = ["Rust's aliasing rules: data reachable only through shared references and containing no interior mutability cannot change",
                       "user functions (dyn UserFunction) are deterministic and self-contained; their own effects are outside the property",
                       "the deny-list is a list: callees it does not name are assumed free of ambient effects (all reachable callees are enumerated in C01's evidence)"]
