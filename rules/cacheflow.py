"""Where do the function caches that reach UserFunctions::call come from, and how often are they created?

An interprocedural, flow-insensitive, field-sensitive forward taint over the exported MIR of all crate-local bodies:
seeds are the places where a value of the cache type is created out of nothing (a call that returns the cache type
and receives none); taint flows through moves, copies, (re)borrows, aggregates (struct fields, closure / coroutine
captures), calls into crate-local functions (argument -> parameter) and their return values.  A creation site whose
taint reaches the cache parameter of the cache's consumer is a *cache creation*.  "Nothing is remembered from one
evaluation to the next, and one cache serves a whole evaluation" then reads: every cache creation lies in code that
runs once per call of a public evaluation entry point — not inside a loop, and not in a function that is (transitively)
called from inside a loop of such code.
"""
import hazards
from mir import callee_of

AWAIT = "Desugaring(Await)"


def loop_blocks(body):
    """blocks that lie on a cycle of the CFG, not counting the poll loops of `.await`"""
    blocks = body["blocks"]
    n = len(blocks)
    succ = [[m for m in hazards.successors(b["term"]) if m < n and not blocks[m]["cleanup"]] if not b["cleanup"] else [] for b in blocks]
    # Tarjan
    index = {}
    low = {}
    onst = set()
    st = []
    out = set()
    counter = [0]
    import sys
    sys.setrecursionlimit(100000)

    def strong(v):
        index[v] = low[v] = counter[0]
        counter[0] += 1
        st.append(v)
        onst.add(v)
        for w in succ[v]:
            if w not in index:
                strong(w)
                low[v] = min(low[v], low[w])
            elif w in onst:
                low[v] = min(low[v], index[w])
        if low[v] == index[v]:
            comp = []
            while True:
                w = st.pop()
                onst.discard(w)
                comp.append(w)
                if w == v:
                    break
            if len(comp) > 1 or v in succ[v]:
                # an await poll loop: every block of the component belongs to the await desugaring
                if not all((blocks[x]["term"].get("exp") == AWAIT) for x in comp):
                    out.update(comp)
    for v in range(n):
        if v not in index and not blocks[v]["cleanup"]:
            strong(v)
    return out


def root_of(f, d):
    while f.bodies.get(d, {}).get("parent"):
        d = f.bodies[d]["parent"]
    return d


def analyse(f, consumer, cache_types, entries, reach):
    """-> dict(creations=[{fn, span, callee, in_loop, under_loop}], reaches_consumer=bool per creation)"""
    owned = [t for t in cache_types if not t.startswith("&")]
    bodies = {d: f.bodies[d] for d in reach if d in f.bodies}
    # include nested closures / coroutines of reachable bodies
    for d, b in f.bodies.items():
        if root_of(f, d) in bodies:
            bodies[d] = b
    tys = {d: [f.ty_s(l["ty"]) for l in b["locals"]] for d, b in bodies.items()}
    # ---- creation sites
    creations = []
    for d, b in bodies.items():
        lb = None
        for bi, blk in enumerate(b["blocks"]):
            t = blk["term"]
            if t["k"] != "call" or blk["cleanup"]:
                continue
            dest = t.get("dest")
            if not dest or dest["p"]:
                continue
            if tys[d][dest["l"]] not in owned:
                continue
            argtys = []
            for a in t["args"]:
                if a["k"] in ("copy", "move"):
                    ty = tys[d][a["place"]["l"]] if not a["place"]["p"] else None
                    argtys.append(ty)
            if any(ty in cache_types for ty in argtys if ty):
                continue
            c = callee_of(t)
            if lb is None:
                lb = loop_blocks(b)
            creations.append({"fn": d, "block": bi, "dest": dest["l"], "span": t.get("span"), "callee": (c or {}).get("full", "?"), "in_loop": bi in lb})
    # type discipline: only a local whose type can hold the cache can be tainted (the map type itself, a reference to it,
    # a crate ADT with such a field, a closure / coroutine / future that may have captured it)
    CM_ = sorted(owned, key=len)[0] if owned else ""
    holders = set()
    wrapper = CM_ in f.adts
    import re as _re
    for path_, a_ in f.adts.items():
        if not a_.get("local"):
            continue
        for v_ in a_["variants"]:
            for fl_ in v_["fields"]:
                ts_ = _re.sub(r"'\w+ ", "", fl_.get("ty_s", ""))
                # a plain map is also what Value::Map, Symbols ... hold: only a `&mut` field of that type is the cache
                if (wrapper and CM_ in ts_) or (not wrapper and ts_ == "&mut " + CM_):
                    holders.add(path_)

    def capable(ts):
        return (CM_ and CM_ in ts) or ts in cache_types or ts.startswith("{") or "Future" in ts or "Pin<" in ts or any(h in ts for h in holders)

    class TaintSet(set):
        """`x in t` is also True for locals that can never hold the cache, so that callers do not retry them"""
        def __contains__(self, item):
            d_, l_ = item
            if d_ in tys and l_ < len(tys[d_]) and not capable(tys[d_][l_]):
                return False
            return set.__contains__(self, item)

        def wants(self, item):
            d_, l_ = item
            if d_ in tys and l_ < len(tys[d_]) and not capable(tys[d_][l_]):
                return False
            return not set.__contains__(self, item)

    # ---- taint (per creation, so that each creation's reach is known)
    def run_taint(seed_fn, seed_local):
        tainted = TaintSet()
        set.add(tainted, (seed_fn, seed_local))
        fields = set()         # (adt path or closure def, field index)
        returns = set()        # functions whose return value is tainted
        changed = True

        def field_keys(d, pl):
            """(owner, index) of every field projection of a place: owner = ADT path, or the closure / coroutine def"""
            b = bodies[d]
            cur = b["locals"][pl["l"]]["ty"]
            out = []
            for e in pl["p"]:
                t_ = f.ty(cur)
                if e[0] == "deref":
                    cur = t_.get("inner", (t_.get("args") or [cur])[0] if t_.get("box") else cur)
                elif e[0] == "field":
                    if pl["l"] == 1 and b.get("parent") and not out and t_.get("k") in ("closure", "coroutine"):
                        out.append((d, e[1]))
                    else:
                        owner = t_.get("adt") or t_.get("def") or t_.get("s")
                        out.append((owner, e[1]))
                    if len(e) > 2:
                        cur = e[2]
                # downcast / index / others keep `cur`
            return out

        def place_t(d, pl):
            if (d, pl["l"]) in tainted:
                return True
            return any(k in fields for k in field_keys(d, pl))

        while changed:
            changed = False
            for d, b in bodies.items():
                for blk in b["blocks"]:
                    for st_ in blk["stmts"]:
                        if st_["k"] != "assign":
                            continue
                        rv = st_["rv"]
                        srcs = []
                        if rv["k"] == "use" and rv["op"]["k"] in ("move", "copy"):
                            srcs.append(rv["op"]["place"])
                        elif rv["k"] in ("ref", "rawptr"):
                            srcs.append(rv["place"])
                        elif rv["k"] == "cast" and rv.get("op", {}).get("k") in ("move", "copy"):
                            srcs.append(rv["op"]["place"])
                        elif rv["k"] == "agg":
                            for j, o in enumerate(rv.get("ops", [])):
                                if o.get("k") in ("move", "copy") and place_t(d, o["place"]):
                                    key = (rv["def"], j) if rv.get("ak") in ("closure", "coroutine") else (rv.get("adt") or "tuple", j)
                                    if key not in fields:
                                        fields.add(key)
                                        changed = True
                                    if not (rv.get("ak") in ("closure", "coroutine") or rv.get("adt")):
                                        srcs.append(o["place"])      # tuples / arrays: the whole value carries it
                        if any(place_t(d, p) for p in srcs):
                            dst = st_["place"]
                            if dst["p"]:
                                ks = field_keys(d, dst)
                                if ks and ks[-1] not in fields:
                                    fields.add(ks[-1])
                                    changed = True
                            if tainted.wants((d, dst["l"])):
                                tainted.add((d, dst["l"]))
                                changed = True
                    t = blk["term"]
                    if t["k"] == "call":
                        c = callee_of(t)
                        q = c and (c.get("resolved") or c["path"])
                        for j, a in enumerate(t["args"]):
                            if a["k"] in ("move", "copy") and place_t(d, a["place"]):
                                if q in bodies and tainted.wants((q, j + 1)):
                                    tainted.add((q, j + 1))
                                    changed = True
                                elif q not in bodies and t.get("dest") and not t["dest"]["p"]:
                                    # an upstream function handed the cache (Box::pin, Pin::new, into_future ...): its result carries it
                                    if tainted.wants((d, t["dest"]["l"])):
                                        tainted.add((d, t["dest"]["l"]))
                                        changed = True
                        if q in returns and t.get("dest") and not t["dest"]["p"] and tainted.wants((d, t["dest"]["l"])):
                            tainted.add((d, t["dest"]["l"]))
                            changed = True
                    if (d, 0) in tainted and not b.get("parent") and d not in returns:
                        returns.add(d)
                        changed = True
                # an async fn returns its coroutine: the coroutine's captures carry the taint
        return tainted, fields, field_keys

    cb = f.bodies[consumer]
    cparam = [i for i in range(1, cb["arg_count"] + 1) if f.ty_s(cb["locals"][i]["ty"]) in cache_types]
    # ---- functions that run under a loop
    under = set()
    callsites = {}
    for d, b in bodies.items():
        lb = loop_blocks(b)
        for bi, blk in enumerate(b["blocks"]):
            t = blk["term"]
            if t["k"] == "call" and not blk["cleanup"]:
                c = callee_of(t)
                q = c and (c.get("resolved") or c["path"])
                if q in bodies:
                    callsites.setdefault(root_of(f, d), set()).add(root_of(f, q))
                    if bi in lb:
                        under.add(root_of(f, q))
    grew = True
    while grew:
        grew = False
        for g in list(under):
            for q in callsites.get(g, ()):
                if q not in under:
                    under.add(q)
                    grew = True
    out = []
    touched = []
    for c in creations:
        tainted, fields, field_keys = run_taint(c["fn"], c["dest"])
        c["reaches_consumer"] = any((consumer, i) in tainted for i in cparam)
        c["under_loop"] = root_of(f, c["fn"]) in under
        c["root"] = root_of(f, c["fn"])
        out.append(c)
        if not c["reaches_consumer"]:
            continue
        # every call of a non-local function that receives this cache (by value or through a field)
        for d, b in bodies.items():
            for blk in b["blocks"]:
                t = blk["term"]
                if t["k"] != "call" or blk["cleanup"]:
                    continue
                cal = callee_of(t)
                q = cal and (cal.get("resolved") or cal["path"])
                if q in bodies:
                    continue
                for a in t["args"]:
                    if a["k"] in ("move", "copy") and ((d, a["place"]["l"]) in tainted or any(k in fields for k in field_keys(d, a["place"]))):
                        touched.append((d, (cal or {}).get("resolved_full") or (cal or {}).get("full", "?"), t.get("span")))
                        break
    return out, sorted(set(touched))
