"""Access layer over the facts file written by engines/mirfacts (one JSON per run)."""
import json


# the crate's public data types as the property statements and the rules name them; when one of them is moved to
# another module (and re-exported), every path in the facts is mapped back to the name used here
CANONICAL_TYPES = ["expr::Expr", "expr::index::Index", "value::Value", "ruleset::RuleSet", "ruleset::rule::Rule", "ruleset::Outcome",
                   "ruleset::builder::Builder", "symbol::Symbols", "function::UserFunctions", "error::Error",
                   "expr::eval::context::EvalContext", "parse::rule::RuleBuilder", "value::ser::ValueSerializer"]


class Facts:
    def __init__(self, path):
        with open(path) as fh:
            text = fh.read()
        self.raw = json.loads(text)
        have = set(a["path"] for a in self.raw["adts"])
        moved = {}
        for canon in CANONICAL_TYPES:
            if canon in have:
                continue
            last = canon.split("::")[-1]
            c = [a["path"] for a in self.raw["adts"] if a.get("local") and a["path"].split("::")[-1] == last]
            if len(c) == 1:
                moved[c[0]] = canon
        if moved:
            import re as _re
            for real, canon in moved.items():
                text = _re.sub(r"(?<![A-Za-z0-9_:])" + _re.escape(real) + r"(?![A-Za-z0-9_])", canon, text)
            self.raw = json.loads(text)
        self.moved_types = moved
        self._index()
        # the evaluation context is crate-private and may be renamed freely: it is the type behind the `&mut`
        # parameter of the recursive evaluator, and is mapped to the name the rules use
        ctx_canon = "expr::eval::context::EvalContext"
        try:
            import evalsum
            ev = evalsum.find_evaluator(self)
            real = None
            if ev:
                fb = self.bodies[ev[0]]
                for i in range(1, fb["arg_count"] + 1):
                    t = self.types[fb["locals"][i]["ty"]]
                    if t["k"] == "ref" and t["s"].startswith("&mut "):
                        ad = self.adt_of(t["inner"])
                        if ad and ad != "expr::Expr" and self.adts.get(ad, {}).get("local"):
                            real = ad
            if real and real != ctx_canon and ctx_canon not in self.adts:
                import re as _re
                text = json.dumps(self.raw)
                text = _re.sub(r"(?<![A-Za-z0-9_:])" + _re.escape(real) + r"(?![A-Za-z0-9_])", ctx_canon, text)
                self.raw = json.loads(text)
                self.moved_types[real] = ctx_canon
                self._index()
        except ImportError:
            pass

    def _index(self):
        self.types = self.raw["types"]
        self.bodies = {}
        for b in self.raw["bodies"]:
            self.bodies[b["def"]] = b
        self.adts = {a["path"]: a for a in self.raw["adts"]}
        self.fns = {f["path"]: f for f in self.raw["fns"]}
        self.impls = self.raw["impls"]
        self.statics = self.raw["statics"]
        self.mono = self.raw["mono"]
        self.nonce = self.raw.get("nonce")

    # ---- types
    def ty(self, i):
        return self.types[i]

    def ty_s(self, i):
        return self.types[i]["s"]

    def peel(self, i):
        """strip references / Box to the pointee type id"""
        while True:
            t = self.types[i]
            if t["k"] in ("ref", "ptr"):
                i = t["inner"]
            elif t["k"] == "adt" and t.get("box"):
                i = t["args"][0]
            else:
                return i

    def impl_method(self, trait, self_s, name):
        """path of the body of `impl trait for self_s { fn name }` wherever the impl block lives"""
        c = [d for d, b in self.bodies.items() if b.get("name") == name and not b.get("parent")
             and (b.get("impl") or {}).get("trait") == trait and (b.get("impl") or {}).get("self_s") == self_s]
        return c[0] if len(c) == 1 else None

    def adt_by_name(self, path):
        """an ADT by its path, or — when it was moved to another module — by its unique last segment"""
        if path in self.adts:
            return path
        last = path.split("::")[-1]
        c = [p for p, a in self.adts.items() if a.get("local") and p.split("::")[-1] == last]
        return c[0] if len(c) == 1 else None

    def adt_of(self, i):
        t = self.types[i]
        return t.get("adt") if t["k"] == "adt" else None

    def variant_by_discr(self, adt_path, discr):
        a = self.adts.get(adt_path)
        if not a:
            return None
        for v in a["variants"]:
            if str(v.get("discr")) == str(discr):
                return v
        return None

    def variant_names(self, adt_path):
        return [v["name"] for v in self.adts[adt_path]["variants"]]

    # ---- bodies
    def body(self, path):
        return self.bodies[path]

    def find_bodies(self, pred):
        return [b for b in self.raw["bodies"] if pred(b)]

    def closures_of(self, path):
        return [b for b in self.raw["bodies"] if b.get("parent") == path]


# ---------------------------------------------------------------- pretty printing

def place_s(p):
    s = "_%d" % p["l"]
    for e in p["p"]:
        k = e[0]
        if k == "deref":
            s = "(*%s)" % s
        elif k == "field":
            s = "%s.%d" % (s, e[1])
        elif k == "downcast":
            s = "(%s as %s)" % (s, e[1])
        elif k == "index":
            s = "%s[_%d]" % (s, e[1])
        elif k == "constidx":
            s = "%s[%s%d of %d]" % (s, "-" if e[3] else "", e[1], e[2])
        elif k == "subslice":
            s = "%s[%d..%s%d]" % (s, e[1], "-" if e[3] else "", e[2])
        else:
            s = "%s<%s>" % (s, k)
    return s


def callee_of(term):
    """fn-ref dict of a call terminator (or None for indirect calls)"""
    f = term.get("func", {})
    if f.get("k") == "const" and "fn" in f:
        return f["fn"]
    return term.get("callee")


def operand_s(o):
    if o["k"] in ("copy", "move"):
        return "%s %s" % (o["k"], place_s(o["place"]))
    if o["k"] == "const":
        if "fn" in o:
            return "fn " + o["fn"].get("resolved_full", o["fn"]["full"])
        return o["d"]
    return o["k"]


def rvalue_s(rv, facts=None):
    k = rv["k"]
    if k == "use":
        return operand_s(rv["op"])
    if k == "ref":
        return "&%s %s" % (rv["bk"], place_s(rv["place"]))
    if k == "binop":
        return "%s(%s, %s)" % (rv["op"], operand_s(rv["a"]), operand_s(rv["b"]))
    if k == "unop":
        return "%s(%s)" % (rv["op"], operand_s(rv["a"]))
    if k == "cast":
        fs = facts.ty_s(rv["from"]) if facts else rv["from"]
        ts = facts.ty_s(rv["to"]) if facts else rv["to"]
        return "%s as %s (%s from %s)" % (operand_s(rv["op"]), ts, rv["ck"], fs)
    if k == "discr":
        return "discriminant(%s)" % place_s(rv["place"])
    if k == "agg":
        ak = rv["ak"]
        name = ak
        if ak == "adt":
            name = "%s::%s" % (rv["adt"], rv["variant"])
        elif ak in ("closure", "coroutine"):
            name = "%s %s" % (ak, rv["def"])
        return "%s(%s)" % (name, ", ".join(operand_s(o) for o in rv["ops"]))
    if k == "copyforderef":
        return "deref_copy %s" % place_s(rv["place"])
    return k + " " + json.dumps({a: b for a, b in rv.items() if a != "k"})[:80]


def term_s(t):
    k = t["k"]
    if k == "goto":
        return "goto bb%d" % t["t"]
    if k == "switch":
        return "switch(%s) [%s, otherwise: bb%d]" % (
            operand_s(t["op"]), ", ".join("%s: bb%d" % (v, b) for v, b in t["targets"]), t["otherwise"])
    if k == "call":
        c = callee_of(t)
        name = c.get("resolved_full", c["full"]) if c else "<indirect>"
        return "%s = %s(%s) -> %s unwind %s" % (
            place_s(t["dest"]), name, ", ".join(operand_s(a) for a in t["args"]),
            "bb%s" % t["t"] if t["t"] is not None else "!", t["unwind"])
    if k == "drop":
        return "drop(%s) -> bb%d unwind %s" % (place_s(t["place"]), t["t"], t["unwind"])
    if k == "assert":
        return "assert(%s == %s, %s) -> bb%d" % (operand_s(t["cond"]), t["expected"], t["msg"], t["t"])
    if k == "yield":
        return "yield(%s) -> resume bb%d (arg %s) drop %s" % (
            operand_s(t["value"]), t["resume"], place_s(t["resume_arg"]), t["drop"])
    if k == "falseedge":
        return "falseEdge -> bb%d (imaginary bb%d)" % (t["t"], t["imag"])
    if k == "falseunwind":
        return "falseUnwind -> bb%d" % t["t"]
    return k


def dump_body(facts, b, out=None):
    lines = []
    lines.append("fn %s  [%s] args=%d span=%s" % (b["def"], b["kind"], b["arg_count"], b["span"]))
    for i, l in enumerate(b["locals"]):
        lines.append("  let _%d: %s%s" % (i, facts.ty_s(l["ty"]), "  // " + l["name"] if "name" in l else ""))
    for i, bb in enumerate(b["blocks"]):
        lines.append("  bb%d%s:" % (i, " (cleanup)" if bb["cleanup"] else ""))
        for s in bb["stmts"]:
            if s["k"] == "assign":
                lines.append("    %s = %s" % (place_s(s["place"]), rvalue_s(s["rv"], facts)))
            else:
                lines.append("    " + s["k"])
        lines.append("    " + term_s(bb["term"]))
    return "\n".join(lines)


if __name__ == "__main__":
    import sys
    f = Facts(sys.argv[1])
    for pat in sys.argv[2:]:
        for d, b in f.bodies.items():
            if d == pat or (pat.endswith("*") and d.startswith(pat[:-1])):
                print(dump_body(f, b))
                print()
