"""C08 — literals denote exactly what is written; layout and comments are insignificant (structural part).

Decided: token -> helper wiring and the helper summaries (prefix stripped, radix, conversion, variant), the
escape table read off `unescape`'s MIR, inclusion of the promised literal spellings in the token languages and
of the token bodies in the conversions' documented syntax, token priority / longest match for every
overlapping pair of patterns, and the skip patterns.  NOT decided: exactness of std's / rust_decimal's
from_str implementations."""
import re

import evalsum
import grammar
import lexical
import lexre
from framework import Inconclusive
from norm import norm, norm_cond, show, short_callee
from tss import Interp, State

LEVEL = "other"


def ast_of(rx):
    return lexre.parse(rx)


def cat(*asts):
    return ("cat", list(asts))


def run(res, f, tier):
    g = grammar.load(f)
    table = g["table"]
    res.floor("lexer patterns", len(table), 50)
    lx = lexre.Lexer(table)
    tok = g["terminal_token"]          # terminal name -> table index
    obligations = discharged = 0
    samples = []

    def ob(ok, key, what, detail=None):
        nonlocal obligations, discharged
        obligations += 1
        if ok:
            discharged += 1
        else:
            res.violation(key, what, detail)

    # ---- 1. wiring: literal terminal -> helper -> summary
    helper_of = {}
    for p in g["prods"]:
        if len(p["rhs"]) == 1 and p["rhs"][0] in lexical.LITERALS and p["term"]:
            for conds, t in p["term"]:
                m = re.search(r"Ok\(helpers::(\w+)!\(\$0\)\)", t)
                if m:
                    helper_of[p["rhs"][0]] = "parse::helpers::" + m.group(1)
        if len(p["rhs"]) == 1 and p["rhs"][0] in lexical.CONSTANTS and p["term"] and p["lhs"] != "Func" and \
                f.ty_s(f.bodies["parse::reval::__action%d" % p["action"]]["locals"][0]["ty"]) in ("value::Value", "()"):
            want = lexical.CONSTANTS[p["rhs"][0]]
            got = [t for _, t in p["term"]]
            if got == ["<()>"]:
                continue     # a keyword-grouping nonterminal (`IsNoneKwd: () = {"is_none", "none"}`): carries no value
            ob(got == [want], "C08|constant|%s" % p["rhs"][0], "the literal %s must denote %s, found %s" % (p["rhs"][0], want, got))
    for T, spec in sorted(lexical.LITERALS.items()):
        h = helper_of.get(T)
        hpath, outs = grammar.helper_summary(f, g, h.split("::")[-1], opaque=lambda p: p.startswith("parse::unescape")) if h else (None, None)
        if not hpath:
            ob(False, "C08|wiring|%s" % T, "literal token %s is not converted by a helper function (%s)" % (T, h))
            continue
        rows = sorted((c, r) for c, r, _, _ in outs)
        if spec["back"]:
            body = "str::index(value, Range(%d, Sub(str::len(value), %d)))" % (spec["front"], spec["back"])
        else:
            body = "str::index(value, RangeFrom(%d))" % spec["front"]
        if T == "STRING":
            call = "unescape::unescape(%s)" % body
        elif spec["radix"]:
            call = "%s(%s, %d)" % (spec["conv"], body, spec["radix"])
        else:
            call = "%s(%s)" % (spec["conv"], body)
        okc = call.replace("(", "!(", 1)
        good = (len(rows) == 2 and rows[0][0] == ((call, "fails"),) and rows[0][1].startswith("Err(") and
                rows[1] == (((call, "ok"),), "Ok(%s(%s))" % (spec["variant"], okc)))
        ob(good, "C08|helper|%s" % T, "%s must be converted as %s(%s), stripping %d leading / %d trailing characters: %s" %
           (T, spec["variant"], call, spec["front"], spec["back"], rows), {"helper": h})
        samples.append({"token": T, "regex": table[tok[T]][0][:60], "helper": h.split("::")[-1], "summary": rows[1][1] if len(rows) == 2 else str(rows)})
        # the stripped characters are exactly the token's fixed prefix / suffix
        ast = lx.asts[tok[T]]
        pre, _ = lexre.literal_prefix(ast)
        pre_s = "".join(chr(c) for c in pre)
        ob(pre_s[:spec["front"]] == spec["prefix"] and len(spec["prefix"]) == spec["front"], "C08|prefix|%s" % T,
           "the %d characters stripped from %s must be its fixed prefix %r (token regex starts with %r)" % (spec["front"], T, spec["prefix"], pre_s))
        if spec["back"]:
            suf, _ = lexre.literal_suffix(ast)
            ob("".join(chr(c) for c in suf)[-spec["back"]:] == spec.get("suffix"), "C08|suffix|%s" % T, "the trailing characters stripped from %s must be its fixed suffix" % T)
        ob(lexre.min_len(ast) >= spec["front"] + spec["back"], "C08|minlen|%s" % T, "every %s lexeme must be at least %d characters long" % (T, spec["front"] + spec["back"]))
        # promised spellings are tokens of this kind; bodies are inside the conversion's syntax
        inc, w = lexre.included(ast_of(lexical.REQUIRED[T]), ast)
        ob(inc, "C08|covers|%s" % T, "the token %s does not accept the promised spelling %r" % (T, w))
        if T != "STRING":
            key = spec["conv"] + (":%d" % spec["radix"] if spec["radix"] else "")
            exotic = lexical.EXOTIC_ACCEPTED[key]
            if exotic:
                pref = ast_of(re.escape(spec["prefix"]).replace("\\ ", " "))
                w = lexre.intersects(ast, cat(pref, ast_of(exotic)))
                ob(w is None, "C08|body|%s" % T, "the token %s admits %r, which %s reads as something other than the number written" % (T, w, spec["conv"]))
            else:
                ob(True, "C08|body|%s" % T, "")
    # ---- 2. escape table
    un = [d for d in f.bodies if d.endswith("::unescape") and d.startswith("parse::unescape")]
    if len(un) != 1:
        raise Inconclusive("unescape not found")
    # the unicode-escape routine, by what it is: the crate-local function reached from unescape that yields a char or an
    # error of its own (not unescape's error type)
    ub = f.bodies[un[0]]
    un_ret = f.ty_s(ub["locals"][0]["ty"])
    m_err = re.match(r"std::result::Result<.*, (.+)>$", un_ret)
    un_err = m_err.group(1) if m_err else "?"
    pu = []
    reach_un = list(evalsum.reachable_local(f, [un[0]]))
    try:
        # also what std calls back (the `next` of an iterator struct drained by `try_fold`)
        reach_un += [q_ for q_ in evalsum.reachable_mono(f, [un[0]]) if q_ not in reach_un and q_.startswith(("parse::", "<parse::"))]
        for q_ in list(reach_un):
            reach_un += [x_ for x_ in evalsum.reachable_local(f, [q_]) if x_ not in reach_un]
    except Exception:
        pass
    for q in reach_un:
        if q not in f.bodies:
            continue
        qb = f.bodies[q]
        if q == un[0] or qb.get("parent") or qb["kind"] not in ("Fn", "AssocFn"):
            continue
        rt = f.ty_s(qb["locals"][0]["ty"])
        if rt.startswith("std::result::Result<char, ") and not rt.endswith(", %s>" % un_err):
            pu.append(q)
    pu_short = short_callee(pu[0]) if len(pu) == 1 else "?"
    it = Interp(f, loop_bound=2, opaque=lambda p: p in pu, max_paths=40000)
    paths = it.run(un[0], [("sym", "value")], State())
    srcs = set()
    for s, rv in paths:
        for c in s.conds:
            m_src = re.fullmatch(r"next\((.*), #0\)", norm_cond(c)[0])
            if m_src:
                srcs.add(m_src.group(1))
    if len(srcs) != 1:
        raise Inconclusive("unescape does not walk over one character iterator: %s" % sorted(srcs))
    SRC = srcs.pop()
    core_src = re.fullmatch(r"(?:\w+::peekable\()?(Chars::enumerate\(str::chars\(value\)\)|str::chars\(value\)|str::char_indices\(value\))\)?", SRC)
    ob(bool(core_src), "C08|escape-source", "unescape must walk over the characters of its argument, found %s" % SRC)
    pair = not (core_src and core_src.group(1) == "str::chars(value)")
    E0, E1 = ("elem0(%s).1" % SRC, "elem1(%s).1" % SRC) if pair else ("elem0(%s)" % SRC, "elem1(%s)" % SRC)
    table_found = {}
    raw_kept = False
    dangling_err = False
    other_err = False
    unicode_ok = False
    def is_backslash(conds, e):
        """True / False / None: `c == '\\'` as a comparison or as a match arm"""
        v_ = conds.get("Eq(92, %s)" % e)
        if v_ is not None:
            return v_ == "val not:0"
        v_ = conds.get(e, "")
        if v_ == "val 92":
            return True
        if v_.startswith("val not:") and "92" in v_[8:].split(","):
            return False
        return None

    for s, rv in paths:
        conds = dict(norm_cond(c) for c in s.conds)
        pushes = [show(norm(e[2][1])) for e in s.events if e[0] == "call" and short_callee(e[1]) == "String::push"]
        ret = show(norm(it.resolve(s, rv)))
        if is_backslash(conds, E0) is False and pushes[:1] == [E0]:
            raw_kept = True
        if is_backslash(conds, E0) is True:
            if conds.get("next(%s, #1)" % SRC) == "fails":
                dangling_err = dangling_err or ret.startswith("Err(InvalidEscape")
                continue
            v = conds.get(E1, "")
            # the escape letter may (also) be compared one value at a time: a chain of `==`, a search through a constant
            # table, a `match` for the simple escapes followed by `== 'u'`
            eqs = {int(m_.group(1)): r_ for c_, r_ in conds.items() for m_ in [re.fullmatch(r"Eq\((\d+), %s\)" % re.escape(E1), c_)] if m_}
            yes = [k_ for k_, r_ in eqs.items() if r_ == "val not:0"]
            if not (v.startswith("val ") and not v.startswith("val not:")):
                if len(yes) == 1:
                    v = "val %d" % yes[0]
                elif eqs or v:
                    ruled_out = set(k_ for k_, r_ in eqs.items() if r_ == "val 0") | set(int(x) for x in v[8:].split(",") if v.startswith("val not:") and x)
                    v = "val not:" + ",".join(str(k_) for k_ in sorted(ruled_out))
            if v.startswith("val not:"):
                other_err = other_err or (ret.startswith("Err(InvalidEscape") and not pushes)
                table_found.setdefault("other", set()).add(tuple(sorted(int(x) for x in v[8:].split(","))))
            elif v.startswith("val "):
                c = int(v[4:])
                if pushes[:1] and pushes[0].lstrip("-").isdigit():
                    table_found[c] = int(pushes[0])
                elif c == lexical.UNICODE_ESCAPE and ((pushes[:1] and pushes[0].startswith(pu_short + "!(") and SRC in pushes[0]) or ret.startswith("Err(InvalidUnicode")):
                    unicode_ok = True
                    table_found[c] = "unicode"
    got = {k: v for k, v in table_found.items() if isinstance(k, int) and v != "unicode"}
    ob(got == lexical.ESCAPES, "C08|escapes", "the escape table must be %s, found %s" % (lexical.ESCAPES, got))
    ob(unicode_ok and table_found.get(lexical.UNICODE_ESCAPE) == "unicode", "C08|escape-u", "\\u must be decoded by the unicode-escape routine")
    ob(raw_kept, "C08|raw-chars", "a character that is not a backslash must be kept verbatim")
    ob(dangling_err and other_err and table_found.get("other") == {tuple(sorted(list(lexical.ESCAPES) + [lexical.UNICODE_ESCAPE]))},
       "C08|bad-escape", "an unknown or dangling escape must be an error (and exactly the seven known escape letters are recognised)")
    if len(pu) == 1:
        outs, it2 = evalsum.summarize_fn(f, pu[0], arg_names=["chars"])
        rets = sorted(set(r for _, r, _, _ in outs))
        has_radix16 = any("u32::from_str_radix" in r and ", 16)" in r for r in rets) or any("from_str_radix" in c[0] and ", 16)" in c[0] for cs, _, _, _ in outs for c in cs)
        ob(has_radix16 and any("char::from_u32" in r or "char::from_u32" in str(cs) for cs, r, _, _ in outs) and any(r.startswith("Err(BraceNotFound") for r in rets),
           "C08|unicode-escape", "\\u{hex} must require braces, read hexadecimal digits and map through char::from_u32 (None -> error): %s" % rets[:4])
        # the digits are everything up to the closing brace: no adaptor may bound, skip or filter what is read, and a
        # `take_while` must stop at `}` and nowhere else
        used = set()
        for _, _, s2_, _ in outs:
            for e_ in s2_.events:
                if e_[0] == "call":
                    used.add(short_callee(e_[1]))
        text2 = " ".join(r for _, r, _, _ in outs) + " " + " ".join(a_ for cs, _, _, _ in outs for a_, _ in cs)
        for m_ in re.finditer(r"(\w+)::(take|skip|step_by|skip_while|filter|filter_map|nth|rev|chain|zip|last|scan|fuse|map_while)\(", text2):
            used.add("%s::%s" % (m_.group(1), m_.group(2)))
        odd = sorted(u for u in used if u.split("::")[-1] in ("take", "skip", "step_by", "skip_while", "filter", "filter_map", "nth", "rev", "chain", "zip", "last", "scan", "fuse", "map_while"))
        ob(not odd, "C08|unicode-escape|digits", "the hex digits of \\u{..} must be every character up to the closing brace; the routine also applies %s to the characters" % odd)
        for m_ in re.finditer(r"take_while\([^()]*(?:\([^()]*\))?[^()]*, closure\(([^(),]+)\)\)", text2):
            import c17 as _c17
            cs_ = _c17.closure_summary(f, m_.group(1)) if m_.group(1) in f.bodies else None
            good_ = cs_ is not None and len(cs_) == 1 and not cs_[0][0] and re.fullmatch(r"(?:Ne\(125, (?:e|e1|e\.1)\)|Ne\((?:e|e1|e\.1), 125\)|Not\(Eq\(125, (?:e|e1|e\.1)\)\))", cs_[0][1]) is not None
            ob(good_, "C08|unicode-escape|until-brace", "the digits of \\u{..} must be read until `}` exactly: the take_while predicate is %s" % (cs_,))
            break
    else:
        ob(False, "C08|unicode-escape", "the unicode-escape routine (a function reached from unescape that returns a char or its own error) was not found: %s" % pu)
    # ---- 3. priority / longest match for every overlapping pair
    names = {i: n for n, i in tok.items()}
    ident_i = tok.get("IDENT")
    if ident_i is None:
        raise Inconclusive("IDENT terminal not found")
    keywords = []
    for n, i in tok.items():
        rx = table[i][0]
        m = re.fullmatch(r"\(\?:([a-z_]+)\)", rx)
        if m:
            keywords.append((n, i, m.group(1)))
    res.floor("keyword terminals", len(keywords), 25)
    overlaps = []
    nonskip = [i for i, (_, sk) in enumerate(table) if not sk]
    for a in range(len(table)):
        for b in range(a + 1, len(table)):
            if table[a][1] or table[b][1]:
                continue
            w = lexre.intersects(lx.asts[a], lx.asts[b])
            if w is not None:
                overlaps.append((b, a, w))      # higher index wins an equal-length tie
    expected = set((tok[w], tok[l]) for w, l in lexical.EXPECTED_TIES) | set((i, ident_i) for _, i, _ in keywords)
    for win, lose, w in overlaps:
        ob((win, lose) in expected, "C08|tie|%s/%s" % (names.get(win, win), names.get(lose, lose)),
           "the text %r is matched by both %s and %s; the lexer picks %s — not a tie the lexical specification foresees" % (w, names.get(win), names.get(lose), names.get(win)))
    for pair in expected:
        ob(any((a, b) == pair for a, b, _ in overlaps), "C08|tie-missing|%s/%s" % (names.get(pair[0]), names.get(pair[1])),
           "%s must win over %s on their common spellings (keyword / literal before identifier)" % (names.get(pair[0]), names.get(pair[1])))
    identc = ast_of(lexical.IDENT_CONT)
    for n, i, word in keywords:
        inc, w = lexre.included(cat(lx.asts[i], ("plus", identc)), lx.asts[ident_i])
        ob(inc, "C08|longer-word|%s" % n, "a word that merely starts with the keyword %r must be an identifier (%r is not)" % (word, w))
    inc, w = lexre.equivalent(lx.asts[ident_i], ast_of(lexical.IDENT))
    ob(inc, "C08|ident", "identifiers must be %s (differs on %r)" % (lexical.IDENT, w))
    # ---- 4. layout
    skips = [i for i, (_, sk) in enumerate(table) if sk]
    ob(len(skips) == 2, "C08|skip-count", "exactly two skip patterns (whitespace, // comments) expected, found %d" % len(skips))
    ws = ("star", ast_of(lexical.WHITESPACE))
    cm = ast_of(lexical.COMMENT)
    ws_i = [i for i in skips if lexre.equivalent(lx.asts[i], ws)[0]]
    # a comment pattern may or may not swallow the line break(s) that end it, but nothing beyond them
    cm_min = ast_of("//[\\0-\t\x0b\x0c\x0e-\U0010ffff]*")
    cm_i = [i for i in skips if lexre.included(lx.asts[i], cm)[0] and lexre.included(cm_min, lx.asts[i])[0]]
    ob(len(ws_i) == 1, "C08|whitespace", "one skip pattern must be exactly (Unicode White_Space)*")
    ob(len(cm_i) == 1, "C08|comment", "one skip pattern must be exactly // up to the end of the line plus the line breaks")
    anyc = ("lit", [(0, 0xD7FF), (0xE000, 0x10FFFF)])
    has_ws = cat(("star", anyc), ast_of(lexical.WHITESPACE), ("star", anyc))
    starts_comment = cat(ast_of("//"), ("star", anyc))
    for i in nonskip:
        if names.get(i) == "STRING":
            continue
        w = lexre.intersects(lx.asts[i], has_ws)
        ob(w is None, "C08|ws-in-token|%s" % names.get(i, i), "token %s can contain whitespace (%r): layout would change the token sequence" % (names.get(i), w))
        w = lexre.intersects(lx.asts[i], starts_comment)
        ob(w is None, "C08|comment-in-token|%s" % names.get(i, i), "token %s can start with // (%r)" % (names.get(i), w))
    # ---- 5. the text the lexer sees is the caller's text: Expr::parse / Rule::parse hand their argument unchanged to the
    # generated parser (a pre-pass that drops or rewrites lines would change literals that span lines)
    for owner in ("expr::Expr", "ruleset::rule::Rule"):
        ep = evalsum.find_by_name(f, "parse", owner)
        if len(ep) != 1:
            raise Inconclusive("%s::parse not found" % owner)
        gen = lambda p_: p_.startswith("parse::reval::") and p_.endswith("Parser::parse")
        it5 = Interp(f, opaque=gen, loop_bound=1, max_paths=20000)
        texts = set()
        ncalls = []
        for s5, rv5 in it5.run(ep[0], [("sym", "input")], State()):
            cs5 = [e for e in s5.events if e[0] == "call" and e[1] in f.bodies and gen(e[1])]
            ncalls.append(len(cs5))
            for e in cs5:
                texts.add(show(norm(e[2][-1])))
        short_owner = owner.split("::")[-1]
        ob(texts == {"input"} and ncalls and set(ncalls) == {1}, "C08|parser-input|%s::parse" % short_owner,
           "%s::parse must hand its text unchanged, once, to the generated parser (found %s, calls per path %s)" % (short_owner, sorted(texts), sorted(set(ncalls))))
    res.coverage = {
        "explanation": "%d lexer patterns (%d keywords) and the 7 literal helpers + unescape/parse_unicode: wiring and summaries, fixed prefixes, promised spellings inside the "
                       "token languages, token bodies inside the conversions' syntax, %d overlapping pattern pairs with their winners, keyword-prefix words, skip patterns "
                       "and absence of whitespace / comment starts inside tokens — all by automata over the extracted table, nothing executed" % (len(table), len(keywords), len(overlaps)),
        "obligations": obligations, "discharged": discharged, "overlapping_pairs": len(overlaps),
        "escape_table": {chr(k): v for k, v in got.items()},
        "rule": "helper summary == lexical spec; language inclusions; winner-on-intersection == spec; skip patterns == spec",
        "samples": samples,
        "exhaustive": True,
    }
    res.assumptions = ["lalrpop_util::lexer semantics (anchored longest match, ties to the highest index, skip patterns dropped) — read in the dependency source",
                       "the regex-syntax subset parser of rules/lexre.py (fails closed on unknown syntax)",
                       "i128::from_str[_radix], f64::from_str, Decimal::from_str return the written value on their documented syntax (numeric exactness not analysed)"]
