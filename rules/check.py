#!/usr/bin/env python3
"""Entry point:  python3 rules/check.py <property id> [--tier quick|thorough]"""
import importlib
import os
import sys

sys.path.insert(0, os.path.dirname(os.path.abspath(__file__)))
import framework  # noqa: E402


def main():
    if len(sys.argv) < 2:
        print("usage: check.py <C01..C19> [--tier quick|thorough]")
        sys.exit(3)
    pid = sys.argv[1].upper()
    try:
        mod = importlib.import_module(pid.lower())
    except ModuleNotFoundError:
        print("BROKEN property=%s no such check" % pid)
        sys.exit(3)
    framework.main(pid, mod.LEVEL, mod.run, sys.argv[2:])


if __name__ == "__main__":
    main()
