"""C10 — names and access paths resolve to exactly the addressed data.

Decided from MIR summaries: which key is looked up on which container and what happens on absence, for
identifier references, `facts`, symbols, user-function names and .field/.index steps; and that the evaluator
passes the node's own name / index to these lookups."""
import re
import dispatch
import evalsum
import optable
from evalsum import VALUE
from framework import Inconclusive

LEVEL = "other"


def find(f, name, self_contains):
    c = [d for d, b in f.bodies.items() if b["name"] == name and self_contains in (b.get("impl") or {}).get("self_s", "")]
    if len(c) != 1:
        raise Inconclusive("lookup anchor %s::%s not found (%s)" % (self_contains, name, c))
    return c[0]


def run(res, f, tier):
    obligations = discharged = 0
    samples = []

    def ob(ok, key, what, detail=None):
        nonlocal obligations, discharged
        obligations += 1
        if ok:
            discharged += 1
        else:
            res.violation(key, what, detail)

    # ---- identifier / facts
    import anchors
    A = anchors.resolve(f)
    ref = A["ctx_reference"]
    tags = f.variant_names(VALUE)
    for tag in tags:
        def facts_arg(it, st, tag=tag):
            # &EvalContext whose `facts` field points to a Value of the given tag
            b = f.bodies[ref]
            ctx = evalsum.symbolic_arg(f, it, st, b["locals"][1]["ty"], "ctx")
            return ctx
        outs, it = evalsum.summarize_fn(f, ref, arg_names=["ctx", "name"])
        break
    # run once per facts tag by refining the symbolic facts value
    from tss import Interp, State
    from norm import norm, norm_cond, show
    b = f.bodies[ref]
    for tag in tags:
        it = Interp(f)
        st = State()
        ctx = evalsum.symbolic_arg(f, it, st, b["locals"][1]["ty"], "ctx")
        # locate the facts field (a &Value) and point it to a tagged value
        ctxv = st.heap[ctx[1][1]]
        fields = list(ctxv[3])
        adt = f.adts[ctxv[1]]
        idx = [i for i, fl in enumerate(adt["variants"][0]["fields"]) if fl["ty_s"].endswith("value::Value") and fl["ty_s"].startswith("&")]
        if len(idx) != 1:
            raise Inconclusive("EvalContext has no single &Value field")
        var = it.variant(VALUE, tag)
        fv = ("adt", VALUE, tag, tuple(("sym", "facts.%d" % j) for j in range(len(var["fields"]))))
        fields[idx[0]] = ("ref", st.alloc(fv))
        st.heap[ctx[1][1]] = ("adt", ctxv[1], ctxv[2], tuple(fields))
        res_ = it.run(ref, [ctx, ("sym", "name")], st)
        outs = sorted((tuple(sorted(set(norm_cond(c) for c in s.conds))), show(norm(it.resolve(s, rv)))) for s, rv in res_)
        whole = "Ok(%s)" % (("%s(facts.0)" % tag) if var["fields"] else tag)
        is_facts = ("str::eq(name, 'facts')", "val not:0")
        not_facts = ("str::eq(name, 'facts')", "val 0")
        if tag == "Map":
            want = sorted([((is_facts,), whole),
                           (tuple(sorted([("BTreeMap::get(facts.0, name)", "fails"), not_facts])), "Err(UnknownRef(name))"),
                           (tuple(sorted([("BTreeMap::get(facts.0, name)", "ok"), not_facts])), "Ok(BTreeMap::get!(facts.0, name))")])
        else:
            want = sorted([((is_facts,), whole), ((not_facts,), "Err(InvalidType)")])
        ob(outs == want, "C10|reference|%s" % tag,
           "identifier lookup on a %s input: expected %s, found %s" % (tag, want, outs), {"fn": ref})
        if tag == "Map":
            samples.append({"lookup": "identifier on a Map input", "outcomes": ["[%s] %s" % ("; ".join(" ".join(c) for c in cs), r) for cs, r in outs]})
    # ---- symbols / functions
    lookups = [("symbol", "EvalContext", None, "InvalidSymbol", A["ctx_symbol"])]
    for q in A["symbol_chain"]:
        slf_ = anchors.self_of(f, q).split("::")[-1]
        lookups.append((f.bodies[q]["name"], slf_, "self.0" if slf_ == "Symbols" else None, "InvalidSymbol", q))
    lookups.append(("get", "UserFunctions", "self.functions", "UnknownUserFunction", A["uf_get"]))
    for (nm, slf, container, err, d) in lookups:
        outs, it = evalsum.summarize_fn(f, d, arg_names=["self", "name"])
        rows = sorted((c, r) for c, r, _, _ in outs)
        ok = len(rows) == 2
        if ok:
            (c_fail, r_fail), (c_ok, r_ok) = rows
            # the container: the symbols table / the functions table, addressed by the unmodified name
            subj = c_ok[0][0] if c_ok else ""
            ok = (len(c_ok) == 1 and len(c_fail) == 1 and c_ok[0][1] == "ok" and c_fail[0][1] == "fails" and c_fail[0][0] == subj and
                  subj.startswith("BTreeMap::get(") and subj.endswith(", name)") and
                  r_fail == "Err(%s(name))" % err and r_ok == "Ok(%s)" % subj.replace("BTreeMap::get(", "BTreeMap::get!(", 1))
            if ok and container:
                ok = subj == "BTreeMap::get(%s, name)" % container
            if ok and not container:
                ok = "symbols" in subj
        ob(ok, "C10|lookup|%s::%s" % (slf, nm), "%s::%s must look the exact name up in its table and report absence with %s(name): %s" % (slf, nm, err, rows), {"fn": d})
        samples.append({"lookup": "%s::%s" % (slf, nm), "outcomes": ["[%s] %s" % ("; ".join(" ".join(c) for c in cs), r) for cs, r in rows]})
    # ---- index steps (cells of the index operator)
    t = optable.compute(f)
    if not t:
        raise Inconclusive("evaluator not found")
    if "Index" not in t["cells_by_kind"]:
        raise Inconclusive("Index node kind has no operator table")
    ops = t["op_of_kind"].get("Index", ["<inline>"])
    cells = t["cells_by_kind"]["Index"]
    for combo, outs in sorted(cells.items()):
        rows = sorted((o["conds"], o["ret"]) for o in outs)
        if combo == ("Map", "Map"):
            want = sorted([((("BTreeMap::get(L.0, R.0)", "fails"),), "Ok(None)"), ((("BTreeMap::get(L.0, R.0)", "ok"),), "Ok(BTreeMap::get!(L.0, R.0))")])
        elif combo == ("Vec", "Vec"):
            want = sorted([((("[Value]::get(L.0, R.0)", "fails"),), "Ok(None)"), ((("[Value]::get(L.0, R.0)", "ok"),), "Ok([Value]::get!(L.0, R.0))")])
        elif combo[0] == "None":
            want = [((), "Ok(None)")]
        else:
            want = [((), "Err(InvalidType)")]
        ob(rows == want, "C10|index|%s" % ",".join(combo), "step %s into %s: expected %s, found %s" % (combo[1], combo[0], want, rows), {"fn": ops[0]})
    # ---- the evaluator hands the node's own name / index to the lookups
    mm, st_ = dispatch.compare_rows(t, kinds=("Reference", "Symbol", "Function", "Index"))
    for kind in ("Reference", "Symbol", "Function", "Index"):
        bad = [m for m in mm if m["kind"] == kind]
        # only the wiring of the lookup is C10's (the evaluation order of Function/Index arguments is C05's)
        def wiring(xs):
            # (lookup, the node's own fields handed to it): further arguments are not C10's
            out = set()
            for x in xs:
                if not isinstance(x, dict):
                    continue
                for e in x["events"]:
                    if e.startswith(("ctx ", "op ")):
                        w = e.split(" ")
                        out.add(" ".join(w[:2] + [a.rstrip(",") for a in w[2:] if re.fullmatch(r"self\.\w+\.\d+,?", a)]))
            return sorted(out)
        ok = not bad or wiring(bad[0]["missing"]) == wiring(bad[0]["unexpected"])
        ob(ok, "C10|dispatch|%s" % kind, "node kind %s does not pass its own name / index to the lookup" % kind,
           {"expected": wiring(bad[0]["missing"]) if bad else None, "actual": wiring(bad[0]["unexpected"]) if bad else None})
    # the addressed data is the one the *written* path names: the step `.N` / `.name` of the text must become
    # Index(.., Vec(N)) / Index(.., Map(name)) with N and name as written.  That is a statement about the grammar's
    # action terms, which C07 decides for every sentence of the precedence table; its verdict on the sentences that
    # contain an access step is imported.
    import c07
    from framework import Result, Inconclusive
    r07 = Result("C07", "other")
    try:
        c07.run(r07, f, tier)
        def step_args(trees):
            """the step argument (last argument) of every Index(..) term in the parse trees, as a sorted list"""
            out = []
            for tr in trees if isinstance(trees, list) else [trees]:
                tr = str(tr)
                for m in re.finditer(r"\bIndex\(", tr):
                    depth, i, last = 1, m.end(), m.end()
                    while i < len(tr) and depth:
                        ch = tr[i]
                        if ch == "(":
                            depth += 1
                        elif ch == ")":
                            depth -= 1
                        elif ch == "," and depth == 1:
                            last = i + 1
                        i += 1
                    out.append(tr[last:i - 1].strip())
            return sorted(out)
        steps = []
        for v in r07.violations:
            if not v["key"].startswith("C07|grammar|"):
                continue
            for w in (v.get("detail") or {}).get("witnesses", []):
                # a sentence parsed differently is C07's; it is C10's when the written steps themselves differ
                # (a parser result that is not a plain tree — value-dependent, retokenised, reject — is not attributed to the step)
                plain = all(isinstance(x, list) and x and not any(str(y).startswith("<") for y in x) for x in (w["table_says"], w["parser_does"]))
                if plain and " DOT " in " %s " % w["tokens"] and step_args(w["table_says"]) != step_args(w["parser_does"]):
                    steps.append({"key": v["key"], "what": "`%s` -> table: %s, parser: %s" % (w["tokens"], w["table_says"], w["parser_does"])})
                    break
        ob(not steps, "C10|written-step",
           "an access step written in the text does not become the index node with the written position / name: %s" % [v["what"][:200] for v in steps[:3]],
           {"c07_findings": [v["key"] for v in steps]})
    except Inconclusive as e:
        res.floor_failures.append("imported grammar verdict on access steps (C07) unavailable: %s" % e)
    res.floor("lookup obligations", obligations, 37)
    res.coverage = {
        "explanation": "MIR summaries of the reference lookup (x10 input tags), symbol and function table lookups, the 20 cells of the index step and the "
                       "evaluator rows of Reference/Symbol/Function/Index were compared with the lookup rules of the property: key = the node's own unmodified "
                       "name/index, container = the addressed one, absence = None for steps / named error for top-level names.",
        "obligations": obligations, "discharged": discharged,
        "rule": "summary == lookup specification (exact key, exact container, exact absent case)",
        "samples": samples, "exhaustive": True,
    }
    res.assumptions = ["BTreeMap<String,_>::get::<str> and <[T]>::get compare keys / positions exactly (std)", "rustc MIR; rules/tss.py"]
