"""C04 — None operands propagate through operators instead of failing (finite table, enumerated completely)."""
import dispatch
import optable
import typerules
from c03 import kind_ops
from framework import Inconclusive

LEVEL = "proof"


def run(res, f, tier):
    t = optable.compute(f)
    if not t:
        raise Inconclusive("recursive evaluator not found from Expr::evaluate")
    ops = kind_ops(t, res)
    obligations = discharged = 0
    samples = []
    for kind, fn in sorted((k, fn_) for k, fns in ops.items() for fn_ in fns):
        for combo, outs in sorted(t["cells_by_kind"][kind].items()):
            if "None" not in combo:
                continue
            obligations += 1
            want = typerules.none_rule(kind, combo)
            if want is None:
                raise Inconclusive("no None rule for node kind %s" % kind)
            rets = sorted(set(o["ret"] for o in outs))
            conds = [o["conds"] for o in outs if o["conds"]]
            if isinstance(want, tuple):
                # membership test of a None item in a list: a boolean computed by the list's own contains
                ok = len(rets) == 1 and rets[0].startswith("Ok(Bool(") and "contains(" in rets[0] and rets[0].endswith(", None)))") and not conds
            else:
                ok = rets == [want] and not conds
            if ok:
                discharged += 1
            else:
                res.violation("C04|none|%s|%s" % (kind, ",".join(combo)),
                              "%s with operands %s: expected %s on every path, found %s" % (kind, combo, want, rets),
                              {"operator_fn": fn, "cell": combo, "outcomes": [dict(when=o["conds"], result=o["ret"]) for o in outs]})
            if len(samples) < 10 and obligations % 23 == 1:
                samples.append({"node": kind, "operands": list(combo), "outcomes": rets})
    mm, st = dispatch.compare_rows(t, classes=("none",), kinds=("If", "And", "Or"), tags_result_only=True)
    # equality: a None left operand gives false (true for !=); otherwise the structural comparison decides
    import evalorder
    for kind in ("Equals", "NotEquals"):
        c0 = evalorder.okv(evalorder.child(kind, 0))
        neg = kind == "NotEquals"
        bad_paths = []
        none_path_seen = False
        for p in t["rows"].get(kind, []):
            for conds, events, ret in dispatch.canon_path(p, t["opfns"]):
                if (c0, "is None") in conds:
                    none_path_seen = True
                    if ret != "Ok(Bool(%s))" % ("True" if neg else "False"):
                        bad_paths.append({"when": sorted("%s %s" % c for c in conds), "result": ret})
                elif ret.startswith("Ok(") and ret not in ("Ok(Bool(True))", "Ok(Bool(False))"):
                    # the structural comparison may only be reached once the left value is known not to be None
                    if not any(a == c0 and b.startswith("is ") and b != "is None" for a, b in conds):
                        bad_paths.append({"when": sorted("%s %s" % c for c in conds), "result": ret,
                                          "why": "the comparison is reached without a test that the left value is not None"})
                if ret.startswith("Err(") and "Err.0" not in ret:
                    bad_paths.append({"when": sorted("%s %s" % c for c in conds), "result": ret})
        if not none_path_seen:
            bad_paths.append({"when": [], "result": "no path tests the left value for None"})
        if bad_paths:
            mm = mm + [{"kind": kind, "missing": [], "unexpected": bad_paths}]
    for kind, what in (("Equals", "left None => false without evaluating the right operand; right None => false"),
                       ("NotEquals", "the negation of equality"),
                       ("If", "a None condition is a type error"), ("And", "a None operand is a type error"),
                       ("Or", "a None operand is a type error")):
        obligations += 1
        bad = [m for m in mm if m["kind"] == kind]
        if bad:
            res.violation("C04|none-lazy|%s" % kind, "%s: %s — the evaluator's paths differ" % (kind, what),
                          {"missing_paths": bad[0]["missing"][:4], "unexpected_paths": bad[0]["unexpected"][:4]})
        else:
            discharged += 1
    res.floor("None cells", obligations, 200)
    import rewrite
    rw_cov = rewrite.apply(res, f, "C04")
    res.coverage = {
        "tree_rewrites": rw_cov,
        "obligations": obligations,
        "discharged": discharged,
        "checker_cmd": "python3 rules/check.py C04",
        "trusted_base": ["rustc MIR (match lowering order)", "rules/tss.py abstract interpreter", "spec/typerules.py none_rule (written from the property text)"],
        "explanation": "every operand tuple containing a None (19 per binary operator, 1 per unary) of every operator function must produce the prescribed "
                       "outcome on every path, whatever the other operand's tag; equality/if/and/or through the evaluator's path table",
        "samples": samples,
        "exhaustive": True,
    }
    res.assumptions = ["the derived PartialEq of Value makes None == non-None false (different variants)"]
