"""The collections of a ruleset by *role*, whatever private structs carry them.

`Builder` and `RuleSet` hold three things the properties talk about: the rule list (`Vec<Rule>`), the function table
(`UserFunctions`) and the symbol table (`Symbols`).  How they are nested is private (three fields of the builder today;
a builder that owns a `RuleSet` whose rules live in a `RuleList` newtype is the same data).  The summaries the rules
compare are brought to one shape:

  * a symbolic leaf `self.<path>` whose type is one of the three role types is written `self.<role>`;
  * a constructor term of `Builder` / `RuleSet` is flattened through nested crate-private structs and written
    `Name(<rules>, <functions>, <symbols>[, other fields])`.
"""
import re

ROLE_TYPES = (("rules", "std::vec::Vec<ruleset::rule::Rule>"), ("functions", "function::UserFunctions"), ("symbols", "symbol::Symbols"))
OWNERS = ("ruleset::builder::Builder", "ruleset::RuleSet")
_memo = {}


def _strip(t):
    return re.sub(r"'\w+ ", "", t)


def _role_of(ts):
    for role, t in ROLE_TYPES:
        if ts == t:
            return role
    return None


def carriers(f):
    """crate-local structs through which the role leaves are reached from Builder / RuleSet (the owners included)"""
    key = ("carriers", getattr(f, "path", id(f)))
    if key in _memo:
        return _memo[key]
    out = {}

    def has_role(adt, depth=0):
        a = f.adts.get(adt)
        if not a or not a.get("local") or a["kind"] != "struct" or depth > 4:
            return False
        found = False
        for fl in a["variants"][0]["fields"]:
            ts = _strip(fl.get("ty_s", ""))
            if _role_of(ts):
                found = True
            elif fl.get("ty") is not None:
                inner = f.adt_of(fl["ty"])
                if inner and inner not in (t for _, t in ROLE_TYPES) and has_role(inner, depth + 1):
                    found = True
        if found:
            out[adt] = a
        return found

    for o in OWNERS:
        has_role(o)
    _memo[key] = out
    return out


def leaf_paths(f, adt, prefix):
    """[(dotted path, role)] of the role leaves below a value of struct type `adt` named `prefix`"""
    out = []
    a = f.adts.get(adt)
    if not a or a["kind"] != "struct":
        return out
    for fl in a["variants"][0]["fields"]:
        ts = _strip(fl.get("ty_s", ""))
        p = "%s.%s" % (prefix, fl["name"])
        r = _role_of(ts)
        if r:
            out.append((p, r))
        elif fl.get("ty") is not None and f.adt_of(fl["ty"]) in carriers(f):
            out += leaf_paths(f, f.adt_of(fl["ty"]), p)
    return out


def _split_top(inner):
    out, depth, cur, q = [], 0, "", None
    i = 0
    while i < len(inner):
        ch = inner[i]
        if q:
            cur += ch
            if ch == "\\" and i + 1 < len(inner):
                cur += inner[i + 1]
                i += 1
            elif ch == q:
                q = None
        elif ch == "'":
            q = ch
            cur += ch
        elif ch in "([{":
            depth += 1
            cur += ch
        elif ch in ")]}":
            depth -= 1
            cur += ch
        elif ch == "," and depth == 0:
            out.append(cur.strip())
            cur = ""
        else:
            cur += ch
        i += 1
    if cur.strip():
        out.append(cur.strip())
    return out


def _close(text, open_at):
    depth, q = 0, None
    i = open_at
    while i < len(text):
        ch = text[i]
        if q:
            if ch == "\\":
                i += 1
            elif ch == q:
                q = None
        elif ch == "'":
            q = ch
        elif ch in "([{":
            depth += 1
        elif ch in ")]}":
            depth -= 1
            if depth == 0:
                return i
        i += 1
    return -1


class Canon:
    def __init__(self, f, self_adt=None, self_name="self"):
        self.f = f
        self.car = carriers(f)
        self.short = {p.split("::")[-1]: p for p in self.car}
        self.paths = []
        self.struct_paths = {}     # symbolic path of a carrier-typed value -> adt
        if self_adt and self_adt in self.car:
            self.paths = leaf_paths(f, self_adt, self_name)
            self._struct_paths(self_adt, self_name)
        self.paths.sort(key=lambda x: -len(x[0]))
        self.self_name = self_name
        if self.paths:
            self.rx = re.compile("|".join(re.escape(p) for p, _ in self.paths) + r"(?![A-Za-z0-9_])") if False else \
                re.compile("(?:" + "|".join(re.escape(p) for p, _ in self.paths) + r")(?![A-Za-z0-9_])")
            self.role = dict(self.paths)
        else:
            self.rx = None

    def _struct_paths(self, adt, prefix):
        self.struct_paths[prefix] = adt
        for fl in self.f.adts[adt]["variants"][0]["fields"]:
            inner = self.f.adt_of(fl["ty"]) if fl.get("ty") is not None else None
            if inner in self.car:
                self._struct_paths(inner, "%s.%s" % (prefix, fl["name"]))

    # ---- leaves
    def leaves(self, x):
        if self.rx is None:
            return x
        return self.rx.sub(lambda m: "%s.%s" % (self.self_name, self.role[m.group(0)]), x)

    # ---- constructors
    def _roles_of_term(self, adt, term):
        """role map {role: term} + other field terms of a value of carrier type `adt` given as `term`"""
        a = self.car[adt]
        short = adt.split("::")[-1]
        fields = a["variants"][0]["fields"]
        roles, others = {}, []
        if term.startswith(short + "(") and _close(term, len(short)) == len(term) - 1:
            args = _split_top(term[len(short) + 1:-1])
            if len(args) == len(fields):
                for fl, arg in zip(fields, args):
                    ts = _strip(fl.get("ty_s", ""))
                    r = _role_of(ts)
                    inner = self.f.adt_of(fl["ty"]) if fl.get("ty") is not None else None
                    if r:
                        roles[r] = arg
                    elif inner in self.car:
                        sub, oth = self._roles_of_term(inner, arg)
                        if sub is None:
                            return None, None
                        roles.update(sub)
                        others += oth
                    else:
                        others.append(arg)
                return roles, others
            return None, None
        if term in self.struct_paths and self.struct_paths[term] == adt:
            # an untouched part of the input: its leaves under their role names
            for p, r in leaf_paths(self.f, adt, term):
                roles[r] = self.leaves(p)
            return roles, others
        return None, None

    def ctors(self, x):
        """flatten constructor terms of the owners (innermost occurrences first)"""
        for owner in OWNERS:
            if owner not in self.car:
                continue
            short = owner.split("::")[-1]
            pos = 0
            guard = 0
            while guard < 40:
                guard += 1
                m = re.search(r"(?<![\w:])%s\(" % re.escape(short), x[pos:])
                if not m:
                    break
                a0 = pos + m.start()
                end = _close(x, a0 + len(short))
                if end < 0:
                    break
                term = x[a0:end + 1]
                roles, others = self._roles_of_term(owner, term)
                if roles is None or set(roles) != set(r for r, _ in ROLE_TYPES):
                    pos = a0 + len(short) + 1
                    continue
                new = "%s(%s)" % (short, ", ".join([roles[r] for r, _ in ROLE_TYPES] + others))
                x = x[:a0] + new + x[end + 1:]
                pos = a0 + len(new)
        return x

    def __call__(self, x):
        if isinstance(x, str):
            return self.ctors(self.leaves(x))
        if isinstance(x, tuple):
            return tuple(self(y) for y in x)
        if isinstance(x, list):
            return [self(y) for y in x]
        if isinstance(x, dict):
            return {self(k): self(v) for k, v in x.items()}
        return x
