"""Reachability over the monomorphic instance graph (follows trait-resolved calls inside upstream generic code)."""


def reachable_local(f, root_paths):
    m = f.mono
    idx = {}
    for i, nd in enumerate(m["nodes"]):
        idx.setdefault(nd["path"], []).append(i)
    adj = {}
    for a, b, k in m["edges"]:
        adj.setdefault(a, []).append(b)
    roots = [i for p in root_paths for i in idx.get(p, [])]
    seen = set()
    todo = list(roots)
    while todo:
        x = todo.pop()
        if x in seen:
            continue
        seen.add(x)
        todo += adj.get(x, [])
    local = sorted(set(m["nodes"][i]["path"] for i in seen if m["nodes"][i]["local"]))
    return local, len(seen), len(roots)
