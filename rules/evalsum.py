"""Semantic summaries of the evaluator, computed from MIR by TSS (shared by C02-C05, C10).

 * find_evaluator(): the recursive evaluator body, found structurally
 * dispatch_rows():  per Expr variant, every path through the evaluator with operator
                     functions left opaque: ordered evaluation events, conditions, result
 * operator_cells(): per operator function and per operand tag tuple, the set of outcomes
"""
import itertools

from mir import callee_of
from tss import Interp, State, vs, cond_s, Unsupported, PathLimit

VALUE = "value::Value"
EXPR = "expr::Expr"
INDEX = "expr::index::Index"


def local_callees(f, body):
    out = []
    for blk in body["blocks"]:
        t = blk["term"]
        if t["k"] == "call":
            c = callee_of(t)
            if c and c.get("resolved_kind") != "Virtual":
                p = c.get("resolved") or c["path"]
                if p in f.bodies:
                    out.append(p)
        for s in blk["stmts"]:
            if s["k"] == "assign" and s["rv"]["k"] == "agg" and s["rv"]["ak"] in ("closure", "coroutine"):
                out.append(s["rv"]["def"])
        # function items handed around as values (`eval_binary(ctx, l, r, add)`): they may be called through the value
        for op in _operands(blk):
            if op.get("k") == "const" and "fn" in op:
                c = op["fn"]
                p = c.get("resolved") or c.get("path")
                if p in f.bodies and p not in out:
                    out.append(p)
    return out


def _operands(blk):
    for s in blk["stmts"]:
        if s["k"] != "assign":
            continue
        rv = s["rv"]
        for k_ in ("op", "l", "r"):
            if isinstance(rv.get(k_), dict):
                yield rv[k_]
        for o in rv.get("ops", []) or []:
            if isinstance(o, dict):
                yield o
    t = blk["term"]
    if t["k"] == "call":
        for a in t["args"]:
            yield a


def reachable_local(f, roots):
    seen = []
    todo = list(roots)
    while todo:
        p = todo.pop()
        if p in seen or p not in f.bodies:
            continue
        seen.append(p)
        todo.extend(local_callees(f, f.bodies[p]))
    return seen


def reachable_mono(f, roots, skip_kinds=("drop_unwind",)):
    """crate-local bodies reachable from `roots` in the monomorphic instance graph: unlike reachable_local this
    follows calls that come back from upstream generic code (a hand-written Debug / Display / PartialEq / Drop /
    Serialize impl called by std or a dependency), function references, closures, vtable methods and drop glue
    (drops that only run while unwinding from a panic are skipped)"""
    m = f.mono
    nodes = m["nodes"]
    adj = {}
    for a, b, k in m["edges"]:
        if k in skip_kinds:
            continue
        adj.setdefault(a, []).append(b)
    want = set(roots)
    # coroutine bodies of async roots are reached through the closure edges of the graph
    todo = [i for i, nd in enumerate(nodes) if nd["path"] in want]
    seen = set()
    while todo:
        x = todo.pop()
        if x in seen:
            continue
        seen.add(x)
        todo += adj.get(x, [])
    out = set(reachable_local(f, roots))
    for i in seen:
        p = nodes[i]["path"]
        if nodes[i]["local"] and p in f.bodies:
            out.add(p)
    return sorted(out)


def discr_switch_width(f, body, adt):
    """largest number of targets of a switch on the discriminant of a place of type `adt`"""
    best = 0
    for blk in body["blocks"]:
        discr_locals = {}
        for s in blk["stmts"]:
            if s["k"] == "assign" and s["rv"]["k"] == "discr":
                discr_locals[s["place"]["l"]] = s["rv"]["place"]
        t = blk["term"]
        if t["k"] == "switch" and t["op"]["k"] in ("move", "copy"):
            src = discr_locals.get(t["op"]["place"]["l"])
            if src is not None:
                ty = body["locals"][src["l"]]["ty"]
                for e in src["p"]:
                    if e[0] == "deref":
                        tt = f.ty(ty)
                        ty = tt.get("inner", tt.get("args", [ty])[0] if tt.get("box") else ty)
                    elif e[0] == "field":
                        ty = e[2]
                if f.adt_of(ty) == adt:
                    best = max(best, len(t["targets"]))
    return best


def find_by_name(f, name, self_s=None, kind=None):
    out = []
    for d, b in f.bodies.items():
        if b["name"] == name and (self_s is None or (b.get("impl") or {}).get("self_s") == self_s):
            out.append(d)
    return out


def find_evaluator(f):
    """(fn path, coroutine body path) of the recursive evaluator reachable from Expr::evaluate"""
    entry = find_by_name(f, "evaluate", EXPR)
    if len(entry) != 1:
        return None
    # the evaluator is the coroutine (body of an async fn) that dispatches on the node kind — itself, or through a
    # synchronous classifier it calls on the node (`match self.step() { .. }` with `fn step(&self) -> Step`)
    def width(p):
        w = discr_switch_width(f, f.bodies[p], EXPR)
        seen = {p}
        level = [p]
        for _ in range(2):
            nxt = []
            for q in level:
                for c in local_callees(f, f.bodies[q]):
                    cb = f.bodies.get(c)
                    if not cb or c in seen or cb.get("parent") or cb.get("coroutine_kind") or cb["kind"] not in ("Fn", "AssocFn"):
                        continue
                    if any(f.bodies.get(x, {}).get("parent") == c for x in f.bodies if f.bodies[x].get("coroutine_kind")):
                        continue        # an async fn: evaluation proper, not a classifier
                    if not any(EXPR in f.ty_s(cb["locals"][i]["ty"]) for i in range(1, cb["arg_count"] + 1)):
                        continue
                    seen.add(c)
                    nxt.append(c)
                    w = max(w, discr_switch_width(f, cb, EXPR))
            level = nxt
        return w

    best = None
    for p in reachable_local(f, entry):
        b = f.bodies[p]
        if not b.get("parent"):
            continue
        w = width(p)
        if w >= 10 and (best is None or w > best[0]):
            best = (w, p)
    if not best:
        return None
    cor = best[1]
    parent = f.bodies[cor].get("parent")
    return parent, cor


def evaluator_captures(f, fn_path, node_ref, ctx_ref):
    """captures of the evaluator's coroutine in the order of the async fn's parameters: the parameter typed `&Expr`
    receives the node, the `&mut <context>` parameter the context (either order: `expr.eval_rec(ctx)` or `ctx.eval(expr)`)"""
    b = f.bodies[fn_path]
    # an `async move` block captures its variables in the order the compiler chose: read it off the aggregate
    types = None
    for blk in b["blocks"]:
        for st_ in blk["stmts"]:
            if st_["k"] == "assign" and st_["rv"]["k"] == "agg" and st_["rv"].get("ak") == "coroutine":
                types = [f.ty_s(b["locals"][o["place"]["l"]]["ty"]) if o.get("k") in ("move", "copy") else "?" for o in st_["rv"]["ops"]]
    if types is None:
        types = [f.ty_s(b["locals"][i]["ty"]) for i in range(1, b["arg_count"] + 1)]
    caps = []
    for i, t in enumerate(types):
        if EXPR in t and "EvalContext" not in t:
            caps.append(node_ref)
        elif t.startswith("&mut ") or "EvalContext" in t:
            caps.append(ctx_ref)
        else:
            caps.append(("sym", "arg%d" % i))
    return tuple(caps)


CTX = "expr::eval::context::EvalContext"
_comp_memo = {}


def context_components(f):
    """the evaluation context and the crate-private types it is made of (a context split into a names part and a
    cache part is still the context): local ADTs reachable from the context type through fields, not counting the
    crate's public data types"""
    key = getattr(f, "path", id(f))
    if key in _comp_memo:
        return _comp_memo[key]
    import mir as _mir
    public = set(_mir.CANONICAL_TYPES) - {CTX}
    out = {CTX}
    work = [CTX]
    while work:
        a = f.adts.get(work.pop())
        if not a:
            continue
        for v in a["variants"]:
            for fl in v["fields"]:
                ty = fl.get("ty")
                if ty is None:
                    continue
                ad = f.adt_of(f.peel(ty))
                if ad and ad not in out and ad not in public and f.adts.get(ad, {}).get("local"):
                    out.add(ad)
                    work.append(ad)
    _comp_memo[key] = out
    return out


def _receiver_component(f, b):
    slf = (b.get("impl") or {}).get("self_s", "").split("<")[0]
    return slf in context_components(f)


def context_accessor(f, p):
    """a context method that only hands out a reference to a part of the context (no call in its body)"""
    b = f.bodies.get(p)
    if not b or b.get("parent") or b.get("coroutine_kind") or not _receiver_component(f, b):
        return False
    if not f.ty_s(b["locals"][0]["ty"]).startswith("&"):
        return False
    return not any(blk["term"]["k"] == "call" for blk in b["blocks"] if not blk["cleanup"])


def context_lookup(f, p):
    """a method of the evaluation context (or of one of its parts) that cannot evaluate a sub-expression (no Expr
    parameter): a lookup.  Plain accessors of a part of the context are not lookups; they are read through."""
    while f.bodies.get(p, {}).get("parent"):
        p = f.bodies[p]["parent"]           # the coroutine of an async method is judged by the method
    b = f.bodies.get(p)
    if not b or not _receiver_component(f, b):
        return False
    if context_accessor(f, p):
        return False
    if any(EXPR in f.ty_s(b["locals"][i]["ty"]) for i in range(1, b["arg_count"] + 1)):
        return False
    # a method that reaches the evaluator evaluates sub-expressions (handed over behind an iterator, say): not a lookup
    key = ("reaches_evaluator", getattr(f, "path", id(f)))
    if key not in _comp_memo:
        ev = find_evaluator(f)
        reach = set()
        if ev:
            for d_, b_ in f.bodies.items():
                if not b_.get("parent") and _receiver_component(f, b_) and ev[0] in reachable_local(f, [d_]):
                    reach.add(d_)
        _comp_memo[key] = reach
    return p not in _comp_memo[key]


def sym_fields(it, adt, variant, prefix):
    var = it.variant(adt, variant)
    return ("adt", adt, variant, tuple(("sym", "%s.%s.%d" % (prefix, variant, j)) for j in range(len(var["fields"]))))


def is_value_op(f, path):
    """a synchronous local fn whose parameters are all Value (or &Index) and that returns Result<Value,_>"""
    b = f.bodies.get(path)
    if not b or b["kind"] not in ("Fn", "AssocFn") or b.get("coroutine_kind"):
        return False
    tys = [f.ty_s(b["locals"][i + 1]["ty"]) for i in range(b["arg_count"])]
    if not tys or not any(t in (VALUE, "&" + VALUE) for t in tys):
        return False
    # it may take further plain parameters (an index step, a mode selector, a function item) but nothing through
    # which it could evaluate a sub-expression or reach the ruleset
    if any("EvalContext" in t or EXPR in t or "RuleSet" in t for t in tys):
        return False
    rt = f.ty_s(b["locals"][0]["ty"])
    return rt.startswith("std::result::Result<value::Value") or rt == VALUE


def dispatch_rows(f, max_paths=5000, loop_bound=2):
    ev = find_evaluator(f)
    if not ev:
        return None
    fn_path, cor_path = ev
    body = f.bodies[cor_path]
    rows = {}

    def opaque(p):
        return p == fn_path or is_value_op(f, p) or context_lookup(f, p)

    for var in f.adts[EXPR]["variants"]:
        it = Interp(f, opaque=opaque, max_paths=max_paths, loop_bound=loop_bound)
        st = State()
        selfv = sym_fields(it, EXPR, var["name"], "self")
        ctx = ("ref", st.alloc(("sym", "ctx")))
        cor = ("coroutine", cor_path, evaluator_captures(f, fn_path, ("ref", st.alloc(selfv)), ctx))
        fid = it.new_frame(st)
        st.frames[fid][1] = cor
        st.frames[fid][2] = ("sym", "task_context")
        res = it.run_body(body, st, fid, 0)
        paths = []
        for s, rv in res:
            paths.append({
                "conds": list(s.conds),
                "events": list(s.events),
                "ret": it.resolve(s, rv),
                "flags": set(s.flags),
            })
        rows[var["name"]] = paths
    return {"fn": fn_path, "coroutine": cor_path, "rows": rows}


def operator_functions(f, disp):
    """operator functions = value ops called (directly or through async helpers) from the evaluator"""
    ops = []
    for p in reachable_local(f, [disp["coroutine"]]):
        if is_value_op(f, p) and p not in ops:
            ops.append(p)
    return ops


def operand_order(f, path):
    """canonical order of an operator function's parameters: the Value operands in declaration order, then the
    rest (an index step) — so `index(value, step)` and `step.lookup(value)` are the same operator"""
    b = f.bodies[path]
    tys = [f.ty_s(b["locals"][i + 1]["ty"]) for i in range(b["arg_count"])]
    return sorted(range(len(tys)), key=lambda i: (0 if tys[i] in (VALUE, "&" + VALUE) else 1, i))


def operator_cells(f, path, max_paths=3000):
    b = f.bodies[path]
    n = b["arg_count"]
    tys = [f.ty_s(b["locals"][i + 1]["ty"]) for i in range(n)]
    order = operand_order(f, path)
    doms = []
    for t in tys:
        if t in (VALUE, "&" + VALUE):
            doms.append((VALUE, f.variant_names(VALUE)))
        else:
            doms.append((INDEX, f.variant_names(INDEX)))
    cells = {}
    canon_names = ["L", "R", "X"] if n > 1 else ["X"]
    names = [None] * n
    for rank, i in enumerate(order):
        names[i] = canon_names[rank]
    for combo in itertools.product(*[d[1] for d in doms]):
        it = Interp(f, max_paths=max_paths)
        st = State()
        args = []
        for i, tag in enumerate(combo):
            v = sym_fields(it, doms[i][0], tag, names[i])
            # payload names without the tag: L.0
            v = ("adt", v[1], v[2], tuple(("sym", "%s.%d" % (names[i], j)) for j in range(len(v[3]))))
            if tys[i].startswith("&"):
                v = ("ref", st.alloc(v))
            args.append(v)
        res = it.run(path, args, st)
        outs = []
        for s, rv in res:
            outs.append({"conds": list(s.conds), "ret": it.resolve(s, rv), "events": list(s.events), "flags": set(s.flags)})
        cells[tuple(combo[i] for i in order)] = outs
    return cells


def kind_cells(f, disp, kinds, max_paths=4000):
    """operator table *by node kind*, read through the evaluator's own arm: for every tuple of operand tags the
    sub-expressions' evaluations are given concrete tagged results (payload symbols L.i / R.i / X.i) and the arm is
    interpreted with the operator code inlined — so it does not matter how the operators are factored into
    functions, helpers, macros or mode parameters.  -> kind -> tag tuple -> outcomes"""
    fn_path, cor_path = disp["fn"], disp["coroutine"]
    body = f.bodies[cor_path]
    ctx_self = lambda p: context_lookup(f, p)
    out = {}
    for kind in kinds:
        var = next((v for v in f.adts[EXPR]["variants"] if v["name"] == kind), None)
        if var is None:
            continue
        roles = []          # per field: ("expr", i) | ("index", i) | ("other", i)
        for i, fl in enumerate(var["fields"]):
            ts = fl["ty_s"]
            if ts in ("std::boxed::Box<%s>" % EXPR, EXPR):
                roles.append("expr")
            elif ts == INDEX:
                roles.append("index")
            else:
                roles.append("other")
        operands = [i for i, r in enumerate(roles) if r == "expr"] + [i for i, r in enumerate(roles) if r == "index"]
        if not operands or "other" in roles:
            continue
        names = (["L", "R", "X"] if len(operands) > 1 else ["X"])
        name_of = {i: names[k] for k, i in enumerate(operands)}
        doms = [f.variant_names(VALUE) if roles[i] == "expr" else f.variant_names(INDEX) for i in operands]
        table = {}
        for combo in itertools.product(*doms):
            it = Interp(f, opaque=lambda p: p == fn_path or ctx_self(p), max_paths=max_paths, loop_bound=1)
            st = State()
            results = {}
            fields = []
            for i, r in enumerate(roles):
                tag = combo[operands.index(i)]
                nm = name_of[i]
                if r == "expr":
                    child = ("sym", "self.%s.%d" % (kind, i))
                    vv = it.variant(VALUE, tag)
                    val = ("adt", VALUE, tag, tuple(("sym", "%s.%d" % (nm, j)) for j in range(len(vv["fields"]))))
                    results["self.%s.%d" % (kind, i)] = val
                    fields.append(("box", child) if var["fields"][i]["ty_s"].startswith("std::boxed::Box") else child)
                else:
                    vv = it.variant(INDEX, tag)
                    fields.append(("adt", INDEX, tag, tuple(("sym", "%s.%d" % (nm, j)) for j in range(len(vv["fields"])))))

            def hook(itp, s_, fut, results=results):
                if fut[0] == "call" and (fut[1] == fn_path or fut[1].split("::<")[0] == fn_path or short_of(fut[1]) == short_of(fn_path)) and fut[2]:
                    for a0 in fut[2]:
                        while a0[0] in ("rref", "box"):
                            a0 = a0[1]
                        if a0[0] == "sym" and a0[1] in results:
                            return ("adt", "std::result::Result", "Ok", (results[a0[1]],))
                return None
            it.await_hook = hook
            selfv = ("adt", EXPR, kind, tuple(fields))
            ctx = ("ref", st.alloc(("sym", "ctx")))
            cor = ("coroutine", cor_path, evaluator_captures(f, fn_path, ("ref", st.alloc(selfv)), ctx))
            fid = it.new_frame(st)
            st.frames[fid][1] = cor
            st.frames[fid][2] = ("sym", "task_context")
            try:
                res = it.run_body(body, st, fid, 0)
            except (PathLimit, Unsupported) as e:
                table[combo] = [{"conds": [], "ret": ("sym", "<%r>" % (e,)), "events": [], "flags": {"unsupported"}}]
                continue
            outs = []
            for s, rv in res:
                outs.append({"conds": list(s.conds), "ret": it.resolve(s, rv), "events": list(s.events), "flags": set(s.flags)})
            if outs:
                outs[0]["call_sites"] = {k_: set(v_) for k_, v_ in it.call_sites.items()}
            table[combo] = outs
        out[kind] = table
    return out


def short_of(name):
    from norm import short_callee
    return short_callee(name)


def outcome_class(ret):
    """('Ok', tag) / ('Err', variant) / ('?', text) of a Result<Value, Error> term"""
    if ret[0] == "adt" and ret[1] == "std::result::Result":
        inner = ret[3][0] if ret[3] else None
        if ret[2] == "Ok":
            if inner and inner[0] == "adt" and inner[1] == VALUE:
                return ("Ok", inner[2])
            return ("Ok", "?" + vs(inner) if inner else "?")
        if inner and inner[0] == "adt":
            return ("Err", inner[2])
        return ("Err", "?" + (vs(inner) if inner else ""))
    if ret[0] == "diverge":
        return ("PANIC", ret[1])
    return ("?", vs(ret))


def symbolic_arg(f, it, st, ty_id, name, depth=3):
    """a symbolic argument shaped by its type: references allocate their pointee, crate-local structs get one
    named symbol per field (so that field order does not matter), everything else is one opaque symbol"""
    t = f.ty(ty_id)
    if t["k"] == "ref":
        return ("ref", st.alloc(symbolic_arg(f, it, st, t["inner"], name, depth)))
    if t["k"] == "adt" and depth > 0:
        a = f.adts.get(t["adt"])
        if a and a["local"] and a["kind"] == "struct":
            var = a["variants"][0]
            fields = []
            for fl in var["fields"]:
                fname = "%s.%s" % (name, fl["name"])
                if "ty" in fl:
                    fields.append(symbolic_arg(f, it, st, fl["ty"], fname, depth - 1))
                else:
                    fields.append(("sym", fname))
            return ("adt", t["adt"], var["name"], tuple(fields))
    return ("sym", name)


def summarize_fn(f, path, arg_names=None, overrides=None, opaque=None):
    """run a body with symbolic arguments; -> (list of (conds, ret string, state, raw ret), interp)"""
    from norm import norm, norm_cond, show
    b = f.bodies[path]
    it = Interp(f, opaque=opaque)
    st = State()
    args = []
    for i in range(b["arg_count"]):
        l = b["locals"][i + 1]
        nm = (arg_names[i] if arg_names and i < len(arg_names) else None) or l.get("name") or "a%d" % i
        if overrides and nm in overrides:
            args.append(overrides[nm](it, st))
        else:
            args.append(symbolic_arg(f, it, st, l["ty"], nm))
    res = it.run(path, args, st)
    outs = []
    for s, rv in res:
        outs.append((tuple(sorted(set(norm_cond(c) for c in s.conds))), show(norm(it.resolve(s, rv))), s, rv))
    return outs, it


def run_async_fn(f, path, arg_names, opaque=None, loop_bound=2):
    """summarise an `async fn`: call it with symbolic arguments, then poll the returned coroutine to completion.
    -> (list of (state, return value), interp)"""
    b = f.bodies[path]
    it = Interp(f, opaque=opaque, loop_bound=loop_bound)
    st = State()
    args = [symbolic_arg(f, it, st, b["locals"][i + 1]["ty"], arg_names[i] if i < len(arg_names) else "a%d" % i)
            for i in range(b["arg_count"])]
    res = it.run(path, args, st)
    out = []
    for s, rv in res:
        while rv[0] == "box":
            rv = rv[1]
        if rv[0] != "coroutine" or rv[1] not in f.bodies:
            raise Unsupported("%s does not return a coroutine" % path)
        fid = it.new_frame(s)
        s.frames[fid][1] = rv
        s.frames[fid][2] = ("sym", "task_context")
        out += it.run_body(f.bodies[rv[1]], s, fid, 0)
    return out, it
