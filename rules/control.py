"""Positive controls for the zero-expected rules (selftest/control): analysed with the same driver and the same
rule functions; every control must be reported, the two negative controls must stay silent."""
import hashlib
import os

import runner
from framework import Inconclusive, VERIF
from mir import Facts

_cached = None


def control_facts():
    global _cached
    if _cached is not None:
        return _cached
    src = os.path.join(VERIF, "selftest", "control")
    h = hashlib.sha256()
    for root, _, files in os.walk(src):
        for fn in sorted(files):
            if "target" in root:
                continue
            with open(os.path.join(root, fn), "rb") as fh:
                h.update(fh.read())
    key = "%s-%s" % (h.hexdigest()[:16], runner.driver_stamp())
    out = os.path.join(runner.CACHE, "control-%s.json" % key)
    if not os.path.exists(out):
        os.makedirs(runner.CACHE, exist_ok=True)
        tmp = out + ".tmp.%d.json" % os.getpid()
        runner.run_driver(src, tmp, crate="control", target_dir=os.path.join(runner.CACHE, "target-control"))
        os.replace(tmp, out)
    _cached = Facts(out)
    return _cached


def hazard_controls():
    """-> dict control name -> found?   (and raises Inconclusive if a negative control fires)"""
    import hazards
    f = control_facts()
    found = {}
    expect = {
        "unwrap_site": ("call", "Option::unwrap", "partial"),
        "narrowing": ("cast", "IntToInt:i128->u8", "silent"),
        "float_to_int": ("cast", "FloatToInt:f64->i64", "silent"),
        "overflow": ("assert", "Overflow(Add):i32", "partial"),
        "indexing": ("assert", "BoundsCheck", "partial"),
        "slicing": ("call", "str::index", "partial"),
        "wrapping": ("call", "u8::wrapping_add", "silent"),
    }
    for fn, (kind, detail, cls) in expect.items():
        b = f.bodies.get(fn)
        sites = hazards.sites(f, b) if b else []
        found[fn] = any(s["kind"] == kind and s["detail"].startswith(detail.split("#")[0]) and s["cls"] == cls for s in sites)
    for fn in ("widening", "total_ops"):
        b = f.bodies.get(fn)
        bad = [s for s in (hazards.sites(f, b) if b else []) if s["cls"] in ("partial", "silent")]
        found["silent:" + fn] = not bad
    missing = [k for k, v in found.items() if not v]
    if missing:
        raise Inconclusive("positive controls of the hazard classifier not reported: %s" % missing)
    return found


def effect_controls():
    import re
    f = control_facts()
    st = {s["path"].split("::")[-1]: s for s in f.statics}
    found = {
        "static-mutex": "COUNTER" in st and not st["COUNTER"]["freeze"],
        "static-mut": "RAW" in st and st["RAW"]["mut"],
        "thread-local": any(s["thread_local"] for s in f.statics),
        "cell-field": any("std::cell::Cell" in m for a in f.raw["adts"] if a["path"] == "Holder" for v in a["variants"] for fl in v["fields"] for m in fl.get("mentions", [])),
        "raw-pointer-field": any("*raw" in fl.get("mentions", []) for a in f.raw["adts"] if a["path"] == "Holder" for v in a["variants"] for fl in v["fields"]),
        "unsafe-block": any(u["owner"] == "unsafe_block" and u["source"] != "CompilerGenerated" for u in f.raw["unsafe_blocks"]),
    }
    import hazards
    calls = {fn: [s.get("full", s["detail"]) for s in hazards.sites(f, f.bodies[fn]) if s["kind"] in ("call", "fnref")] for fn in ("clock", "hash_order") if fn in f.bodies}
    found["clock-callee"] = any("Instant::now" in c for c in calls.get("clock", []))
    found["hash-order-callee"] = any("hash_map" in c or "HashMap" in c for c in calls.get("hash_order", []))
    import c12
    _, amb = c12.ambient_reach(f, {"clock", "seeded_map"})
    found["ambient-reach-clock"] = any(fam == "clock" and local == "clock" for p, fam, local, chain in amb)
    found["ambient-reach-through-upstream"] = any(local == "seeded_map" and len(chain) > 1 for p, fam, local, chain in amb)
    missing = [k for k, v in found.items() if not v]
    if missing:
        raise Inconclusive("positive controls of the effect analysis not reported: %s" % missing)
    return found


def recursion_controls():
    import c19
    f = control_facts()
    m = f.mono
    nodes = m["nodes"]
    n = len(nodes)
    adj = [[] for _ in range(n)]
    for a, b, k in m["edges"]:
        adj[a].append(b)
    cyc = [c for c in c19.sccs_of(n, adj) if len(c) > 1 or c[0] in adj[c[0]]]
    names = [sorted(nodes[i]["path"] for i in c if nodes[i]["local"]) for c in cyc]
    found = {
        "unguarded-recursion": ["depth"] in names,
        "guarded-recursion-found": ["guarded"] in names,
        "guard-recognised": c19.has_depth_guard(f, "guarded", {"guarded"}) and not c19.has_depth_guard(f, "depth", {"depth"}),
        "drop-glue-recursion": any(any(nodes[i]["kind"] == "DropGlue" and "Tree" in nodes[i].get("drop_ty", "") for i in c) for c in cyc),
    }
    missing = [k for k, v in found.items() if not v]
    if missing:
        raise Inconclusive("positive controls of the recursion analysis not reported: %s" % missing)
    return found


def rendered_controls():
    import rendered
    f = control_facts()
    root = f.impl_method("std::fmt::Display", "Doc", "fmt")
    if not root:
        raise Inconclusive("positive control of the rendered-text analysis not found (Display for Doc)")
    out, stats = rendered.analyse(f, [root], ("Doc",))
    found = {
        "rendered-text-rewritten": any(name == "replace" and "closure" in d for d, name, span, full in out),
        "silent:escaping-raw-data": not any("closure" not in d for d, name, span, full in out),
    }
    missing = [k for k, v in found.items() if not v]
    if missing:
        raise Inconclusive("controls of the rendered-text analysis failed: %s (%s)" % (missing, out))
    return found
