"""C16 — printing a parsed expression gives text that parses back to the same expression.

A precedence-correct-printer argument computed from three extracted tables: the printer templates of the
Display impls (MIR), the grammar (C07's, equal to the precedence table) and the lexer table.
 * structure: for every (parent node kind, hole, child node kind) the composed token string must parse back to
   exactly that tree (Earley over sentential forms; grandchildren are atoms);
 * leaves: the printed language of each literal kind must lie inside its token's language and be decoded by the
   inverse conversion; strings must be escaped by the inverse of the unescape table;
 * token boundaries: no last token of a child rendering can be extended by the first character of the text that
   follows it in a template."""
import itertools
import re

import cfg
import fmtfacts
import grammar
import lexical
import lexre
import precedence
from c07 import extracted_grammar, reachable
from framework import Inconclusive
from norm import norm, short_callee, show

LEVEL = "other"
EXPR = "expr::Expr"
VALUE = "value::Value"
INDEX = "expr::index::Index"

# Display language of the payload types (trusted table of std / rust_decimal behaviour), restricted to the
# values the literal syntax can produce
PRINTED = {
    "Int": ("i", r"\-?[0-9]+", "INT"),
    "Float": ("f", r"\-?[0-9]+(\.[0-9]+)?|inf|\-inf", "FLOAT"),          # f64 Display never uses an exponent; NaN cannot be written as a literal
    "Decimal": ("d", r"\-?[0-9]+(\.[0-9]+)?", "DECIMAL"),
}


def field_kinds(f, var):
    out = []
    for fl in var["fields"]:
        t = fl["ty_s"]
        if t == "std::boxed::Box<expr::Expr>":
            out.append("expr")
        elif t == "std::string::String":
            out.append("string")
        elif t == "value::Value":
            out.append("value")
        elif t == "expr::index::Index":
            out.append("index")
        elif t == "std::vec::Vec<expr::Expr>":
            out.append("list")
        elif t.startswith("std::collections::BTreeMap<std::string::String, expr::Expr"):
            out.append("map")
        else:
            out.append("?" + t)
    return out


def run(res, f, tier):
    if not fmtfacts.selftest():
        raise Inconclusive("fmt::Arguments template decoder self-test failed (encoding changed?)")
    g, Pg = extracted_grammar(f)
    Pg = reachable(Pg, ["Expr"])
    lx = lexre.Lexer(g["table"])
    tok = g["terminal_token"]
    names = {i: n for n, i in tok.items()}
    disp = {}
    # ---- the rendering of a sub-term reaches the output verbatim (decided before the templates are decoded: a printer
    # that lays its output out by value-dependent rules may be beyond the template decoder, this rule is not)
    import control
    import rendered
    rendered_ctl = control.rendered_controls()
    roots = [f.impl_method("std::fmt::Display", adt, "fmt") for adt in (EXPR, VALUE, INDEX)]
    if not all(roots):
        raise Inconclusive("Display impl of %s not found" % [a for a, r in zip((EXPR, VALUE, INDEX), roots) if not r])
    rewritten, rstats = rendered.analyse(f, roots, (EXPR, VALUE, INDEX))
    res.floor("sites where a printer renders a sub-term (taint seeds)", rstats["seed_sites"], 1)
    for d_, name_, span_, full_ in rewritten:
        res.violation("C16|rendered-text-rewritten|%s|%s" % (name_, short_callee(d_)),
                      "%s (%s) passes the rendering of a sub-term through `%s` before writing it: a string literal inside that rendering whose content the rewrite touches "
                      "is printed with different content, and the text parses back to a different expression" % (d_, span_, full_),
                      {"function": d_, "span": span_, "callee": full_})
    for adt in (EXPR, VALUE, INDEX):
        imp = f.impl_method("std::fmt::Display", adt, "fmt")
        if not imp:
            raise Inconclusive("Display impl of %s not found" % adt)
        try:
            disp[adt] = fmtfacts.display_templates(f, adt, imp)
        except fmtfacts.FmtUnknown as e:
            raise Inconclusive("printer template of %s not recognised: %s" % (adt, e))
    res.floor("Display arms of Expr", len(disp[EXPR]), 47)
    variants = {v["name"]: v for v in f.adts[EXPR]["variants"]}
    obligations = discharged = 0
    findings = 0

    def ob(ok, key, what, detail=None):
        nonlocal obligations, discharged
        obligations += 1
        if ok:
            discharged += 1
        else:
            res.violation(key, what, detail)

    def lex_piece(text):
        try:
            return [names[i] for i, _ in lx.tokenize(text)]
        except (ValueError, KeyError) as e:
            raise Inconclusive("literal piece %r of a printer template is not lexable: %s" % (text, e))

    # ---- token-level templates:  elements ('tok', name) | ('hole', field index, kind)
    ttempl = {}
    join_sep = {}
    def looped_collection(vname, ts, kinds):
        """a list / map node printed by a loop over its items: the unrolled paths (0, 1, 2 items) give prefix, item
        shape, separator and suffix -> the same template a `join` gives"""
        if not any(k in ("list", "map") for k in kinds) or len(ts) < 3:
            return None
        idx = [i for i, k in enumerate(kinds) if k in ("list", "map")][0]
        kind = kinds[idx]
        by_k = {}
        for t_ in ts:
            shape = []
            for e in t_:
                if e[0] == "lit":
                    shape.append(("lit", e[1]))
                else:
                    term = show(norm(e[1]))
                    m_ = re.fullmatch(r"elem(\d+)\(.*self\.%s\.%d.*?\)(\.[01])?" % (vname, idx), term)
                    if not m_:
                        return None
                    shape.append(("item", int(m_.group(1)), m_.group(2) or ""))
            k_ = len(set(x[1] for x in shape if x[0] == "item"))
            by_k.setdefault(k_, shape)
        if not all(k_ in by_k for k_ in (0, 1, 2)):
            return None
        s0, s1, s2 = by_k[0], by_k[1], by_k[2]
        if [x[0] for x in s0] != ["lit"] or s1[0][0] != "lit" or s1[-1][0] != "lit":
            return None
        pre, suf = s1[0][1], s1[-1][1]
        item1 = s1[1:-1]
        if s0[0][1] != pre + suf:
            return None
        n = len(item1)
        # two items: pre, item(0), sep, item(1), suf
        if len(s2) != 2 * n + 3 or s2[0] != ("lit", pre) or s2[-1] != ("lit", suf) or s2[n + 1][0] != "lit":
            return None
        ren = lambda it_, j: [(x if x[0] == "lit" else ("item", j, x[2])) for x in it_]
        if s2[1:n + 1] != ren(item1, 0) or s2[n + 2:-1] != ren(item1, 1):
            return None
        sep = s2[n + 1][1]
        els_ = [("tok", t) for t in lex_piece(pre)] + [("text", pre)] if pre else []
        if kind == "list":
            if item1 != [("item", 0, "")]:
                return None
            els_.append(("hole", idx, "list", sep))
        else:
            shp = tuple((x[1] if x[0] == "lit" else ("{key}" if x[2] == ".0" else "{value}")) for x in item1)
            els_.append(("hole", idx, "map", sep, shp))
        if suf:
            els_ += [("tok", t) for t in lex_piece(suf)] + [("text", suf)]
        return els_

    for vname, ts in disp[EXPR].items():
        kinds = field_kinds(f, variants[vname])
        if len(ts) != 1:
            lc = looped_collection(vname, ts, kinds)
            if lc is None:
                raise Inconclusive("Display arm of Expr::%s has %d paths" % (vname, len(ts)))
            ttempl[vname] = lc
            continue
        els = []
        for e in ts[0]:
            if e[0] == "lit":
                els += [("tok", t) for t in lex_piece(e[1])]
                els.append(("text", e[1]))
            else:
                term = show(norm(e[1]))
                m = re.fullmatch(r"self\.%s\.(\d+)" % vname, term)
                if m:
                    els.append(("hole", int(m.group(1)), kinds[int(m.group(1))]))
                    continue
                m = re.fullmatch(r"Map::join\(Iter::map\(\[Expr\]::iter\(self\.%s\.(\d+)\), fn Expr::to_string\), '(.*)'\)" % vname, term)
                if m and kinds[int(m.group(1))] == "list":
                    els.append(("hole", int(m.group(1)), "list", m.group(2)))
                    continue
                m = re.fullmatch(r"Map::join\(Iter::map\(BTreeMap::iter\(self\.%s\.(\d+)\), closure\((.*)\)\), '(.*)'\)" % vname, term)
                if m and kinds[int(m.group(1))] == "map":
                    ct = fmtfacts.closure_template(f, m.group(2), ["key", "value"])
                    shape = [(x[1] if x[0] == "lit" else "{%s}" % show(norm(x[1]))) for x in ct]
                    els.append(("hole", int(m.group(1)), "map", m.group(3), tuple(shape)))
                    continue
                raise Inconclusive("hole %s of Expr::%s is not a field of the node" % (term, vname))
        ttempl[vname] = els

    # ---- expansion of a template into (tokens, expected term); children given as callables
    def expand(vname, child, pos0=0):
        """child(i) -> (tokens, term) for expr-hole i.  returns (tokens, expected term)"""
        toks = []
        args = {}
        els = ttempl[vname]
        for e in els:
            if e[0] == "tok":
                toks.append(e[1])
            elif e[0] == "text":
                continue
            else:
                i, kind = e[1], e[2]
                p = pos0 + len(toks)
                if kind == "expr":
                    ct, cterm = child(i, p)
                    toks += ct
                    args[i] = cterm
                elif kind == "string":
                    toks.append("IDENT")
                    args[i] = "IDENT@%d" % p
                elif kind == "value":
                    toks.append("INT")
                    args[i] = "lit(INT@%d)" % p
                elif kind == "index":
                    which = child("index", p)
                    toks.append(which)
                    args[i] = "Map(IDENT@%d)" % p if which == "IDENT" else "Vec(usize(INDEX@%d))" % p
                elif kind == "list":
                    sep = lex_piece(e[3])
                    items = []
                    for k in range(child("count", p)):
                        if k:
                            toks += sep
                        ct, cterm = child(i, pos0 + len(toks))
                        toks += ct
                        items.append("[%s]" % cterm)
                    args[i] = " ++ ".join(items) if items else "[]"
                elif kind == "map":
                    sep = lex_piece(e[3])
                    shape = e[4]
                    items = []
                    for k in range(child("count", p)):
                        if k:
                            toks += sep
                        ent = []
                        keypos = None
                        for part in shape:
                            if part == "{key}":
                                keypos = pos0 + len(toks)
                                toks.append("IDENT")
                            elif part == "{value}":
                                ct, cterm = child(i, pos0 + len(toks))
                                toks += ct
                                ent = cterm
                            else:
                                toks += lex_piece(part)
                        items.append("[tuple(IDENT@%d, %s)]" % (keypos, ent))
                    args[i] = " ++ ".join(items) if items else "[]"
                else:
                    raise Inconclusive("field kind %s of Expr::%s" % (kind, vname))
        nf = len(variants[vname]["fields"])
        term = "%s(%s)" % (vname, ", ".join(args[i] for i in range(nf))) if nf else vname
        return toks, term

    def atom(i, p):
        return ["Term"], "Term@%d" % p

    def parse(tokens):
        return cfg.earley_parse(Pg, "Expr", tokens)

    samples = []
    # ---- structure: every node kind alone, then every (parent, hole, child)
    expr_kinds = list(ttempl)
    for V in expr_kinds:
        for idx_kind in (["IDENT", "INDEX"] if any(e[0] == "hole" and e[2] == "index" for e in ttempl[V]) else ["-"]):
            for count in ([0, 1, 2] if any(e[0] == "hole" and e[2] in ("list", "map") for e in ttempl[V]) else [1]):
                def ch(i, p, idx_kind=idx_kind, count=count):
                    if i == "index":
                        return idx_kind
                    if i == "count":
                        return count
                    return atom(i, p)
                toks, want = expand(V, ch)
                got = parse(toks)
                ob(got == [want], "C16|node|%s|%s|%s" % (V, idx_kind, count),
                   "the rendering of a %s node does not parse back to a %s node: tokens `%s` -> %s (expected %s)" % (V, V, " ".join(toks), got or "reject", want))
    holes_of = {V: [e[1] for e in ttempl[V] if e[0] == "hole" and e[2] in ("expr", "list", "map")] for V in expr_kinds}
    triples = 0
    failing = []
    for V in expr_kinds:
        for h in holes_of[V]:
            for W in expr_kinds:
                triples += 1

                def ch(i, p, h=h, W=W):
                    if i == "index":
                        return "IDENT"
                    if i == "count":
                        return 1
                    if i == h:
                        def inner(j, q):
                            if j == "index":
                                return "IDENT"
                            if j == "count":
                                return 1
                            return atom(j, q)
                        return expand(W, inner, pos0=p)
                    return atom(i, p)
                toks, want = expand(V, ch)
                got = parse(toks)
                ok = got == [want]
                if not ok:
                    failing.append((V, h, W, " ".join(toks), got, want))
                ob(ok, "C16|nest|%s.%d|%s" % (V, h, W),
                   "a %s node in position %d of a %s node is printed as `%s`, which parses back as %s instead of %s" % (W, h, V, " ".join(toks), got or "a syntax error", want))
                if len(samples) < 6 and triples % 700 == 3:
                    samples.append({"parent": V, "hole": h, "child": W, "tokens": " ".join(toks), "reparsed": got})
    # ---- thorough: three-level compositions through exposed renderings (a child whose template starts or ends with
    # a hole lets the grandchild touch the parent's context).  Only failures not already explained by a failing
    # two-level obligation are reported.
    depth3 = 0
    if tier == "thorough":
        failed2 = set((V, h, W) for V, h, W, _, _, _ in failing)
        def exposed_holes(W):
            els = [e for e in ttempl[W] if e[0] != "text"]
            out = []
            if els and els[0][0] == "hole" and els[0][2] == "expr":
                out.append(els[0][1])
            if els and els[-1][0] == "hole" and els[-1][2] == "expr" and els[-1][1] not in out:
                out.append(els[-1][1])
            return out
        for V in expr_kinds:
            for h in holes_of[V]:
                for W in expr_kinds:
                    for h2 in exposed_holes(W):
                        for X in expr_kinds:
                            if (V, h, W) in failed2 or (W, h2, X) in failed2 or (V, h, X) in failed2:
                                continue
                            depth3 += 1

                            def ch(i, p, h=h, W=W, h2=h2, X=X):
                                if i == "index":
                                    return "IDENT"
                                if i == "count":
                                    return 1
                                if i == h:
                                    def inner(j, q):
                                        if j == "index":
                                            return "IDENT"
                                        if j == "count":
                                            return 1
                                        if j == h2:
                                            def inner2(k, r):
                                                if k == "index":
                                                    return "IDENT"
                                                if k == "count":
                                                    return 1
                                                return atom(k, r)
                                            return expand(X, inner2, pos0=q)
                                        return atom(j, q)
                                    return expand(W, inner, pos0=p)
                                return atom(i, p)
                            toks, want = expand(V, ch)
                            got = parse(toks)
                            ob(got == [want], "C16|nest3|%s.%d|%s.%d|%s" % (V, h, W, h2, X),
                               "%s inside %s (position %d) inside %s (position %d) is printed as `%s`, which parses back as %s instead of %s" % (X, W, h2, V, h, " ".join(toks), got or "a syntax error", want))
    # ---- leaves
    vt = disp[VALUE]
    image_tags = ["String", "Int", "Float", "Decimal", "Bool", "None"]
    for tag in ("Int", "Float", "Decimal"):
        t = vt[tag][0]
        prefix, rx, T = PRINTED[tag]
        shape = [(e[1] if e[0] == "lit" else "{%s}" % show(norm(e[1]))) for e in t]
        ob(shape == [prefix, "{self.%s.0}" % tag], "C16|leaf|%s|template" % tag, "a %s literal must be printed as %r followed by the number: %s" % (tag, prefix, shape))
        inc, w = lexre.included(lexre.parse("%s(%s)" % (prefix, rx)), lx.asts[tok[T]])
        ob(inc, "C16|leaf|%s|language" % tag, "the printed form %r of a %s value is not a %s literal" % (w, tag, T), {"witness": w})
    t = vt["Bool"][0]
    ob([(e[0]) for e in t] == ["hole"] and show(norm(t[0][1])) == "self.Bool.0", "C16|leaf|Bool", "booleans must be printed as true / false")
    ob([e for e in vt["None"][0]] == [("lit", "none")], "C16|leaf|None", "the none value must be printed as `none`")
    # strings: "<escaped payload>" where escaping inverts the unescape table on the two characters the token cannot contain raw
    for tag in image_tags:
        ob(len(vt[tag]) == 1, "C16|leaf|%s|paths" % tag,
           "the printed form of a %s value depends on its content (%d different templates): every form must be checked, only one is recognised" % (tag, len(vt[tag])),
           {"templates": [[(e[1] if e[0] == "lit" else show(norm(e[1]))) for e in t_] for t_ in vt[tag]]})
    t = vt["String"][0]
    shape = [(e[1] if e[0] == "lit" else show(norm(e[1]))) for e in t]
    esc_ok = False
    why = "the payload is interpolated without escaping"
    if len(vt["String"]) != 1:
        why = "content-dependent printing (see C16|leaf|String|paths)"
    elif len(shape) == 3 and shape[0] == '"' and shape[2] == '"':
        m = re.fullmatch(r"str::replace\(str::replace\(self\.String\.0, 92, '(.*)'\), 34, '(.*)'\)", shape[1])
        if m and m.group(1) == "\\\\\\\\" and m.group(2) == '\\\\"':
            # backslash first, then quote: image = ([^"\\] | \\\\ | \\")*
            img = lexre.parse("\"([\\0-!#-\\[\\]-\U0010ffff]|\\\\\\\\|\\\\\")*\"")
            inc, w = lexre.included(img, lx.asts[tok["STRING"]])
            esc_ok = inc and lexical.ESCAPES.get(92) == 92 and lexical.ESCAPES.get(34) == 34
            why = "escaped image not inside the STRING token (%r)" % w if not inc else ""
        elif re.fullmatch(r"[\w:]+\(self\.String\.0\)", shape[1]) and [d_ for d_ in f.bodies if fmtfacts.is_text_helper(f, d_) and short_callee(d_) == shape[1].split("(")[0]]:
            helper = [d_ for d_ in f.bodies if fmtfacts.is_text_helper(f, d_) and short_callee(d_) == shape[1].split("(")[0]][0]
            esc = fmtfacts.char_escaper(f, helper)
            if esc == {92, 34}:
                img = lexre.parse("\"([\\0-!#-\\[\\]-\U0010ffff]|\\\\\\\\|\\\\\")*\"")
                inc, w = lexre.included(img, lx.asts[tok["STRING"]])
                esc_ok = inc and lexical.ESCAPES.get(92) == 92 and lexical.ESCAPES.get(34) == 34
                why = "escaped image not inside the STRING token (%r)" % w if not inc else ""
            else:
                why = "the escaping helper %s does not put a backslash before exactly \\ and \" (found %s)" % (helper, esc)
        elif shape[1] == "self.String.0":
            why = "the payload is interpolated raw: a string containing \" or \\ prints to text that is not one STRING token"
        else:
            why = "unrecognised escaping %s" % shape[1]
    ob(esc_ok, "C16|leaf|String", "string literals must be printed between quotes with \\ and \" escaped (inverse of the unescape table): %s" % why, {"template": shape})
    # ---- names: the printer writes identifiers, function names, symbol names, field steps and map keys bare, so every
    # string the parser can put into such a slot must be an IDENT lexeme (taken from an IDENT terminal unchanged)
    g_all, P_all = extracted_grammar(f)
    P_all = reachable(P_all, ["Expr"])
    # helper nonterminals (IndexStep, MapKey, KeyValue ...) are inlined first, so that the slot and its source are in
    # one production whatever the grammar's factoring
    P_inl = cfg.inline_nonrecursive(P_all, keep={"Expr"})

    def first_arg(t, start):
        depth = 0
        for k_ in range(start, len(t)):
            ch = t[k_]
            if ch in "([":
                depth += 1
            elif ch in ")]":
                if depth == 0:
                    return t[start:k_]
                depth -= 1
            elif ch == "," and depth == 0:
                return t[start:k_]
        return t[start:]

    slots = 0
    for l, r, t in P_inl:
        found = []
        for m_ in re.finditer(r"\b(Reference|Symbol|Function)\(", t):
            found.append((m_.group(1), first_arg(t, m_.end())))
        for m_ in re.finditer(r"\btuple\(", t):
            found.append(("map key", first_arg(t, m_.end())))
        for m_ in re.finditer(r"\bIndex\(", t):
            a0 = first_arg(t, m_.end())
            rest = t[m_.end() + len(a0) + 1:].lstrip()
            if rest.startswith("Map("):
                found.append(("field step", first_arg(rest, 4)))
        for slot, arg in found:
            arg = arg.strip()
            slots += 1
            mm = re.fullmatch(r"\(?\$(\d+)\)?", arg)
            src = r[int(mm.group(1))] if mm and int(mm.group(1)) < len(r) else None
            ob(src == "IDENT", "C16|name-slot|%s|%s" % (l, slot),
               "in production %s -> %s the %s is %s%s, which is not an identifier token taken unchanged, but names are printed bare: %s"
               % (l, " ".join(r), slot, arg, " (%s)" % src if src else "", t))
    res.floor("name slots of the grammar (reference, symbol, function, field step, map key)", slots, 5)
    # ---- token boundaries
    LITERAL_LAST = {"String": "STRING", "Int": "INT", "Float": "FLOAT", "Decimal": "DECIMAL", "Bool": "TRUE", "None": "KWD_NONE"}
    last = {V: set() for V in expr_kinds}
    changed = True
    while changed:
        changed = False
        for V in expr_kinds:
            els = [e for e in ttempl[V] if e[0] != "text"]
            e = els[-1]
            new = set()
            if e[0] == "tok":
                new.add(e[1])
            elif e[2] == "expr":
                for W in expr_kinds:
                    new |= last[W]
            elif e[2] == "string":
                new.add("IDENT")
            elif e[2] == "value":
                new |= set(LITERAL_LAST.values()) | {"FALSE"}
            elif e[2] == "index":
                new |= {"IDENT", "INDEX"}
            if not new <= last[V]:
                last[V] |= new
                changed = True
    all_last = set().union(*last.values())
    adjacencies = set()
    for V in expr_kinds:
        raw = [e for e in ttempl[V] if e[0] in ("hole", "text")]
        for a, b in zip(raw, raw[1:]):
            if a[0] == "hole" and b[0] == "text" and b[1]:
                kinds = all_last if a[2] in ("expr", "list", "map") else ({"IDENT"} if a[2] == "string" else (set(LITERAL_LAST.values()) | {"FALSE"} if a[2] == "value" else {"IDENT", "INDEX"}))
                for K in kinds:
                    adjacencies.add((K, b[1][0], V))
    nadj = 0
    seen_kc = {}
    for K, c, V in sorted(adjacencies):
        if (K, c) not in seen_kc:
            pi = tok[K]
            ci = lx.dfa.cls_of(ord(c))
            hazard = None
            for s_i in range(len(lx.dfa.order)):
                if pi in lx.dfa.acc[s_i]:
                    nx = lx.dfa.delta[s_i].get(ci)
                    if nx is not None and nx in lx.dfa.live:
                        w = lx.dfa.example(lambda x, s_i=s_i: x == s_i)
                        hazard = w
                        break
            seen_kc[(K, c)] = hazard
        nadj += 1
    for (K, c), hz in sorted(seen_kc.items()):
        users = sorted(set(V for k2, c2, V in adjacencies if (k2, c2) == (K, c)))
        ob(hz is None, "C16|boundary|%s|%r" % (K, c),
           "a rendering ending in a %s token (e.g. %r) is followed by %r in the template of %s: the lexer reads a longer token, so the text re-tokenises differently" % (K, hz, c, users[:4]),
           {"example_lexeme": hz, "next_char": c, "templates": users})
    res.coverage = {
        "explanation": "47 printer templates of Expr (+10 of Value, 2 of Index) decoded from the MIR of the Display impls; every node kind alone and all %d (parent, hole, child) "
                       "compositions parsed back with the extracted grammar (Earley over sentential forms) and compared with the tree printed; leaf languages and string escaping "
                       "checked by automata against the token table; %d (last token, next character) boundary pairs checked on the lexer DFA" % (triples, len(seen_kc)),
        "obligations": obligations, "discharged": discharged, "triples": triples, "three_level_compositions": depth3, "failing_triples": len(failing), "boundary_pairs": len(seen_kc),
        "rendered_text_flow": dict(rstats, rule="no rendering of a sub-term is the receiver of a content-rewriting str/String method (%s) in the %d bodies reachable from the Display impls"
                                   % (", ".join(rendered.REWRITERS), rstats["bodies"]), rewritten=len(rewritten), controls=rendered_ctl),
        "rule": "parse(print(tree)) == tree for all depth-2 compositions; printed leaf language inside its token; no token-boundary extension",
        "samples": samples + [{"parent": a, "hole": b, "child": c, "tokens": d, "reparsed": e, "expected": g_} for a, b, c, d, e, g_ in failing[:6]],
        "exhaustive": True,
    }
    res.assumptions = ["grandchildren are atoms in each composition: a defect that needs three nested exposed renderings to show is not distinguished (none of today's templates is exposed on both sides except the bitwise ones, already reported)",
                       "Display of i128 / f64 / Decimal prints the languages of the PRINTED table; that a name taken from an IDENT token is not a keyword is the lexer's longest-match/priority rule (C08)",
                       "the grammar equals the precedence table (C07) and is unambiguous (lalrpop LR(1))"]
