"""FMT: printer templates of the Display impls, read off MIR (format_args! byte-code templates + def-use of
their arguments).  A template is a list of elements  ('lit', text) | ('hole', provenance term)."""
import re
import evalsum
from norm import norm, norm_cond, show, short_callee
from tss import Interp, State


class FmtUnknown(Exception):
    pass


def decode_template(b):
    """bytes of a fmt::Arguments template -> list of ('lit', str) | ('ph', arg index or None)
    (encoding documented in core/src/fmt/mod.rs; anything but default formatting options fails closed)"""
    out = []
    i = 0
    n = len(b)
    while i < n:
        c = b[i]
        i += 1
        if c == 0:
            break
        if c < 0x80:
            out.append(("lit", b[i:i + c].decode("utf-8")))
            i += c
        elif c == 0x80:
            ln = b[i] | (b[i + 1] << 8)
            i += 2
            out.append(("lit", b[i:i + ln].decode("utf-8")))
            i += ln
        elif c >= 0xC0:
            flags = c & 0x3F
            if flags & 0b110111:
                raise FmtUnknown("placeholder with formatting options (byte %#x)" % c)
            idx = None
            if flags & 0b001000:
                idx = b[i] | (b[i + 1] << 8)
                i += 2
            out.append(("ph", idx))
        else:
            raise FmtUnknown("template byte %#x" % c)
    return out


def selftest():
    """decoder self-test on the encoding's own documentation example and on known shapes"""
    assert decode_template(b"\x06hello \xC0\x01\n\x00") == [("lit", "hello "), ("ph", None), ("lit", "\n")]
    assert decode_template(b"\xc0\x03 & \xc0\x00") == [("ph", None), ("lit", " & "), ("ph", None)]
    assert decode_template(b"\x01(\xc0\x03 + \xc0\x01)\x00") == [("lit", "("), ("ph", None), ("lit", " + "), ("ph", None), ("lit", ")")]
    try:
        decode_template(b"\xC2\x05\x00")
        return False
    except FmtUnknown:
        return True


def template_of_path(it, s):
    """the single write!/format! of one path (state): list of ('lit', text) | ('hole', raw value, how)"""
    # everything written to the formatter on this path, in order: format_args! templates, `write_str` literals and direct
    # `Display::fmt(x, f)` calls
    out = []

    def lit(text):
        if out and out[-1][0] == "lit":
            out[-1] = ("lit", out[-1][1] + text)
        else:
            out.append(("lit", text))

    def strip(a):
        n = 0
        while a[0] in ("rref", "ref") and n < 6:
            a = a[1] if a[0] == "rref" else it.load_ptr(s, a[1])
            n += 1
        return a

    writes = 0
    for e in s.events:
        if e[0] != "call":
            continue
        sc = short_callee(e[1])
        if sc == "Arguments::from_str":
            a = strip(e[2][0])
            if a[0] != "const" or a[1] != "str":
                raise FmtUnknown("from_str of a non-constant")
            lit(a[2])
            writes += 1
        elif sc == "Formatter::write_str" and len(e[2]) == 2:
            a = strip(e[2][1])
            if a[0] != "const" or a[1] != "str":
                raise FmtUnknown("write_str of a non-constant")
            lit(a[2])
            writes += 1
        elif sc == "Formatter::write_char" and len(e[2]) == 2:
            a = strip(e[2][1])
            if a[0] != "const" or a[1] != "char":
                raise FmtUnknown("write_char of a non-constant")
            lit(chr(a[2]))
            writes += 1
        elif sc == "Arguments::new":
            writes += 1
            tmpl, args = strip(e[2][0]), strip(e[2][1])
            if tmpl[0] != "const" or tmpl[1] != "bytes":
                raise FmtUnknown("template is not a byte constant: %r" % (tmpl,))
            if not (args[0] == "op" and args[1] == "array"):
                raise FmtUnknown("arguments are not an array literal")
            arglist = []
            for a in args[2]:
                if not (a[0] == "call" and short_callee(a[1]) in ("Argument::new_display", "Argument::new_debug")):
                    raise FmtUnknown("argument is not new_display/new_debug: %s" % show(norm(a)))
                arglist.append((a[2][0], short_callee(a[1]).split("_")[-1]))
            nxt = 0
            for kind, v in decode_template(tmpl[2]):
                if kind == "lit":
                    lit(v)
                    continue
                i = v if v is not None else nxt
                if v is None:
                    nxt += 1
                if i >= len(arglist):
                    raise FmtUnknown("placeholder without argument")
                a = strip(arglist[i][0])
                if a[0] == "const" and a[1] == "str" and arglist[i][1] == "display":
                    # a string constant handed to `{}` is printed verbatim: it is part of the template text
                    lit(a[2])
                    continue
                nested = nested_template(it, s, a) if arglist[i][1] == "display" else None
                if nested is not None:
                    for x in nested:
                        if x[0] == "lit":
                            lit(x[1])
                        else:
                            out.append(x)
                    continue
                out.append(("hole", arglist[i][0], arglist[i][1]))
        elif sc.endswith("::fmt") and len(e[2]) == 2 and ("Display" in e[1] or "Debug" in e[1]):
            # `x.fmt(f)`: x is printed here
            out.append(("hole", e[2][0], "debug" if "Debug" in e[1] else "display"))
            writes += 1
    if not writes:
        raise FmtUnknown("nothing is written to the formatter on the path")
    return out


def nested_template(it, s, a, depth=0, all_paths=False):
    """template of a value of a crate-local helper type with its own Display impl (a struct built just to be
    printed), spliced into the template of the caller; None when `a` is not such a value"""
    f = it.f
    if a[0] != "adt" or depth > 2:
        return None
    adt = f.adts.get(a[1])
    if not adt or not adt.get("local") or a[1] in ("expr::Expr", "value::Value", "expr::index::Index"):
        return None
    imp = f.impl_method("std::fmt::Display", a[1], "fmt") or next(
        (d for d, b in f.bodies.items() if b.get("name") == "fmt" and not b.get("parent") and (b.get("impl") or {}).get("trait") == "std::fmt::Display"
         and (b.get("impl") or {}).get("self_s", "").split("<")[0] == a[1]), None)
    if not imp:
        return None
    it2 = Interp(f, opaque=lambda p: is_text_helper(f, p))
    it2.count_enumerate = True
    it2.frame_counter = it.frame_counter + 5000
    st = s.fork()
    st.events = []
    res = it2.run(imp, [("ref", st.alloc(a)), ("ref", st.alloc(("sym", "fmt")))], st)
    oks = [(s2, rv) for s2, rv in res if ok_path(it2, s2, rv)]
    if all_paths:
        ts = []
        for s2, rv in oks:
            t_ = template_of_path(it2, s2)
            if t_ not in ts:
                ts.append(t_)
        return ts
    if len(oks) != 1:
        return None
    return template_of_path(it2, oks[0][0])


def expand_helper_holes(it, s, template):
    """a helper value printed by a loop (`Layout::Dict(entries)` writing its entries one by one) has one template per
    unrolling: the enclosing template is multiplied out -> list of templates"""
    outs = [[]]
    for e in template:
        alts = None
        if e[0] == "hole" and e[2] == "display":
            a = e[1]
            n = 0
            while a[0] in ("rref", "ref") and n < 6:
                a = a[1] if a[0] == "rref" else it.load_ptr(s, a[1])
                n += 1
            if a[0] == "adt":
                alts = nested_template(it, s, a, all_paths=True)
        if not alts:
            outs = [o + [e] for o in outs]
        else:
            outs = [o + list(alt) for o in outs for alt in alts]
        if len(outs) > 64:
            raise FmtUnknown("too many unrollings of nested helper values")
    merged = []
    for o in outs:
        m = []
        for e in o:
            if e[0] == "lit" and m and m[-1][0] == "lit":
                m[-1] = ("lit", m[-1][1] + e[1])
            else:
                m.append(e)
        merged.append(m)
    return merged


def ok_path(it, s, rv):
    """the formatter calls on the path all succeeded (the path does not end in a propagated fmt::Error)"""
    r = it.resolve(s, rv)
    if r[0] == "adt" and r[1] == "std::result::Result":
        return r[2] == "Ok"
    return not any(c[1] == "is" and c[2] == "Err" for c in s.conds)


def is_text_helper(f, path):
    """a crate-local function (&str) -> String"""
    b = f.bodies.get(path)
    if not b or b["kind"] not in ("Fn", "AssocFn") or b["arg_count"] != 1 or b.get("parent"):
        return False
    return f.ty_s(b["locals"][1]["ty"]) in ("&str", "&std::string::String") and f.ty_s(b["locals"][0]["ty"]) == "std::string::String"


def char_escaper(f, path):
    """for a text helper that walks its argument character by character: the set of characters that are written with
    a backslash in front of them, provided every character is written exactly once, in order, and nothing else is
    written; None when the function does not have that shape"""
    it = Interp(f, loop_bound=1, max_paths=2000)
    st = State()
    try:
        res = it.run(path, [("sym", "text")], st)
    except Exception:
        return None
    escaped = set()
    plain_seen = False
    other = None
    for s, rv in res:
        conds = [norm_cond(c) for c in s.conds]
        nxt = [c for c in conds if c[0].startswith("next(")]
        one_char = any(c[1] == "ok" and c[0].endswith("#0)") for c in nxt)
        pushes = [show(norm(e[2][1])) for e in s.events if e[0] == "call" and short_callee(e[1]) == "String::push"]
        if not one_char:
            if pushes:
                return None
            continue
        elem = None
        for c in conds:
            m = re.match(r"^(?:Eq\((\d+), )?(elem0\([^()]*(?:\([^()]*\))*[^()]*\))\)?$", c[0])
            if m:
                elem = m.group(2)
        if elem is None:
            cands = [p_ for p_ in pushes if p_.startswith("elem0(")]
            elem = cands[0] if cands else None
        if elem is None:
            return None
        # which character is this path about?
        vals = set()
        negs = None
        for subj, rel in conds:
            if subj == elem and rel.startswith("val not:"):
                negs = set(int(x) for x in rel[8:].split(","))
            elif subj == elem and rel.startswith("val "):
                vals.add(int(rel[4:]))
            m = re.match(r"^Eq\((\d+), %s\)$" % re.escape(elem), subj)
            if m and rel == "val not:0":
                vals.add(int(m.group(1)))
            elif m and rel == "val 0":
                negs = (negs or set()) | {int(m.group(1))}
        if pushes == ["92", elem] and len(vals) == 1:
            escaped |= vals
        elif pushes == [elem] and not vals:
            plain_seen = True
            other = negs
        else:
            return None
    if not plain_seen or other is None or other != escaped:
        return None
    return escaped


def display_templates(f, adt, impl_path, prefix="self"):
    """variant name -> list of templates (one per path) of `impl Display for adt`"""
    b = f.bodies[impl_path]
    out = {}
    for var in f.adts[adt]["variants"]:
        # text-to-text helpers (an escaping function) stay opaque: their image is analysed on its own
        it = Interp(f, opaque=lambda p: is_text_helper(f, p))
        it.count_enumerate = True
        st = State()
        selfv = evalsum.sym_fields(it, adt, var["name"], prefix)
        res = it.run(impl_path, [("ref", st.alloc(selfv)), ("ref", st.alloc(("sym", "fmt")))], st)
        ts = []
        for s, rv in res:
            if not ok_path(it, s, rv):
                continue      # a write failed: the partial output of an error path is not a rendering
            for t_ in expand_helper_holes(it, s, template_of_path(it, s)):
                if t_ not in ts:
                    ts.append(t_)
        out[var["name"]] = ts
    return out


def closure_template(f, path, argnames):
    """template of a closure that returns format!(..)"""
    b = f.bodies[path]
    it = Interp(f)
    st = State()
    fid = it.new_frame(st)
    st.frames[fid][1] = ("closure", path, ())
    for i in range(b["arg_count"] - 1):
        ty = f.ty(b["locals"][i + 2]["ty"])
        if ty["k"] == "tuple":
            st.frames[fid][i + 2] = ("tup", tuple(("sym", argnames[j]) for j in range(len(ty["args"]))))
        else:
            st.frames[fid][i + 2] = ("sym", argnames[0])
    res = it.run_body(b, st, fid, 0)
    if len(res) != 1:
        raise FmtUnknown("closure with several paths")
    return template_of_path(it, res[0][0])
