"""FMT: printer templates of the Display impls, read off MIR (format_args! byte-code templates + def-use of
their arguments).  A template is a list of elements  ('lit', text) | ('hole', provenance term)."""
import re
import evalsum
from norm import norm, norm_cond, show, short_callee
from tss import Interp, State


class FmtUnknown(Exception):
    pass


def decode_template(b):
    """bytes of a fmt::Arguments template -> list of ('lit', str) | ('ph', arg index or None)
    (encoding documented in core/src/fmt/mod.rs; anything but default formatting options fails closed)"""
    out = []
    i = 0
    n = len(b)
    while i < n:
        c = b[i]
        i += 1
        if c == 0:
            break
        if c < 0x80:
            out.append(("lit", b[i:i + c].decode("utf-8")))
            i += c
        elif c == 0x80:
            ln = b[i] | (b[i + 1] << 8)
            i += 2
            out.append(("lit", b[i:i + ln].decode("utf-8")))
            i += ln
        elif c >= 0xC0:
            flags = c & 0x3F
            if flags & 0b110111:
                raise FmtUnknown("placeholder with formatting options (byte %#x)" % c)
            idx = None
            if flags & 0b001000:
                idx = b[i] | (b[i + 1] << 8)
                i += 2
            out.append(("ph", idx))
        else:
            raise FmtUnknown("template byte %#x" % c)
    return out


def selftest():
    """decoder self-test on the encoding's own documentation example and on known shapes"""
    assert decode_template(b"\x06hello \xC0\x01\n\x00") == [("lit", "hello "), ("ph", None), ("lit", "\n")]
    assert decode_template(b"\xc0\x03 & \xc0\x00") == [("ph", None), ("lit", " & "), ("ph", None)]
    assert decode_template(b"\x01(\xc0\x03 + \xc0\x01)\x00") == [("lit", "("), ("ph", None), ("lit", " + "), ("ph", None), ("lit", ")")]
    try:
        decode_template(b"\xC2\x05\x00")
        return False
    except FmtUnknown:
        return True


def template_of_path(it, s):
    """the single write!/format! of one path (state): list of ('lit', text) | ('hole', raw value, how)"""
    news = [e for e in s.events if e[0] == "call" and short_callee(e[1]) in ("Arguments::new", "Arguments::from_str")]
    if len(news) != 1:
        raise FmtUnknown("expected exactly one format_args! on the path, found %d" % len(news))
    e = news[0]
    if short_callee(e[1]) == "Arguments::from_str":
        a = e[2][0]
        while a[0] == "rref":
            a = a[1]
        if a[0] != "const" or a[1] != "str":
            raise FmtUnknown("from_str of a non-constant")
        return [("lit", a[2])]
    tmpl, args = e[2][0], e[2][1]
    while tmpl[0] == "rref":
        tmpl = tmpl[1]
    if tmpl[0] != "const" or tmpl[1] != "bytes":
        raise FmtUnknown("template is not a byte constant: %r" % (tmpl,))
    while args[0] == "rref":
        args = args[1]
    if not (args[0] == "op" and args[1] == "array"):
        raise FmtUnknown("arguments are not an array literal")
    arglist = []
    for a in args[2]:
        if not (a[0] == "call" and short_callee(a[1]) in ("Argument::new_display", "Argument::new_debug")):
            raise FmtUnknown("argument is not new_display/new_debug: %s" % show(norm(a)))
        arglist.append((a[2][0], short_callee(a[1]).split("_")[-1]))
    out = []
    nxt = 0
    for kind, v in decode_template(tmpl[2]):
        if kind == "lit":
            if out and out[-1][0] == "lit":
                out[-1] = ("lit", out[-1][1] + v)
            else:
                out.append(("lit", v))
        else:
            i = v if v is not None else nxt
            if v is None:
                nxt += 1
            if i >= len(arglist):
                raise FmtUnknown("placeholder without argument")
            a = arglist[i][0]
            n = 0
            while a[0] in ("rref", "ref") and n < 6:
                a = a[1] if a[0] == "rref" else it.load_ptr(s, a[1])
                n += 1
            if a[0] == "const" and a[1] == "str" and arglist[i][1] == "display":
                # a string constant handed to `{}` is printed verbatim: it is part of the template text
                if out and out[-1][0] == "lit":
                    out[-1] = ("lit", out[-1][1] + a[2])
                else:
                    out.append(("lit", a[2]))
                continue
            out.append(("hole", arglist[i][0], arglist[i][1]))
    return out


def is_text_helper(f, path):
    """a crate-local function (&str) -> String"""
    b = f.bodies.get(path)
    if not b or b["kind"] not in ("Fn", "AssocFn") or b["arg_count"] != 1 or b.get("parent"):
        return False
    return f.ty_s(b["locals"][1]["ty"]) in ("&str", "&std::string::String") and f.ty_s(b["locals"][0]["ty"]) == "std::string::String"


def char_escaper(f, path):
    """for a text helper that walks its argument character by character: the set of characters that are written with
    a backslash in front of them, provided every character is written exactly once, in order, and nothing else is
    written; None when the function does not have that shape"""
    it = Interp(f, loop_bound=1, max_paths=2000)
    st = State()
    try:
        res = it.run(path, [("sym", "text")], st)
    except Exception:
        return None
    escaped = set()
    plain_seen = False
    other = None
    for s, rv in res:
        conds = [norm_cond(c) for c in s.conds]
        nxt = [c for c in conds if c[0].startswith("next(")]
        one_char = any(c[1] == "ok" and c[0].endswith("#0)") for c in nxt)
        pushes = [show(norm(e[2][1])) for e in s.events if e[0] == "call" and short_callee(e[1]) == "String::push"]
        if not one_char:
            if pushes:
                return None
            continue
        elem = None
        for c in conds:
            m = re.match(r"^(?:Eq\((\d+), )?(elem0\([^()]*(?:\([^()]*\))*[^()]*\))\)?$", c[0])
            if m:
                elem = m.group(2)
        if elem is None:
            cands = [p_ for p_ in pushes if p_.startswith("elem0(")]
            elem = cands[0] if cands else None
        if elem is None:
            return None
        # which character is this path about?
        vals = set()
        negs = None
        for subj, rel in conds:
            if subj == elem and rel.startswith("val not:"):
                negs = set(int(x) for x in rel[8:].split(","))
            elif subj == elem and rel.startswith("val "):
                vals.add(int(rel[4:]))
            m = re.match(r"^Eq\((\d+), %s\)$" % re.escape(elem), subj)
            if m and rel == "val not:0":
                vals.add(int(m.group(1)))
            elif m and rel == "val 0":
                negs = (negs or set()) | {int(m.group(1))}
        if pushes == ["92", elem] and len(vals) == 1:
            escaped |= vals
        elif pushes == [elem] and not vals:
            plain_seen = True
            other = negs
        else:
            return None
    if not plain_seen or other is None or other != escaped:
        return None
    return escaped


def display_templates(f, adt, impl_path, prefix="self"):
    """variant name -> list of templates (one per path) of `impl Display for adt`"""
    b = f.bodies[impl_path]
    out = {}
    for var in f.adts[adt]["variants"]:
        # text-to-text helpers (an escaping function) stay opaque: their image is analysed on its own
        it = Interp(f, opaque=lambda p: is_text_helper(f, p))
        st = State()
        selfv = evalsum.sym_fields(it, adt, var["name"], prefix)
        res = it.run(impl_path, [("ref", st.alloc(selfv)), ("ref", st.alloc(("sym", "fmt")))], st)
        ts = []
        for s, rv in res:
            ts.append(template_of_path(it, s))
        out[var["name"]] = ts
    return out


def closure_template(f, path, argnames):
    """template of a closure that returns format!(..)"""
    b = f.bodies[path]
    it = Interp(f)
    st = State()
    fid = it.new_frame(st)
    st.frames[fid][1] = ("closure", path, ())
    for i in range(b["arg_count"] - 1):
        ty = f.ty(b["locals"][i + 2]["ty"])
        if ty["k"] == "tuple":
            st.frames[fid][i + 2] = ("tup", tuple(("sym", argnames[j]) for j in range(len(ty["args"]))))
        else:
            st.frames[fid][i + 2] = ("sym", argnames[0])
    res = it.run_body(b, st, fid, 0)
    if len(res) != 1:
        raise FmtUnknown("closure with several paths")
    return template_of_path(it, res[0][0])
