"""Normalised operator table and dispatch table read off the evaluator's MIR (used by C02-C05, C10)."""
import evalsum
from norm import norm, norm_cond, show, short_callee
from tss import vs

_cache = {}


def norm_event(e, evaluator_fn, opfns):
    k = e[0]
    if k == "call":
        name = e[1]
        args = tuple(show(norm(a)) for a in e[2])
        if name.startswith(evaluator_fn):
            node = [a for a in args if a != "ctx" and not a.startswith("ctx.")]
            return ("eval", node[0] if node else args[0])
        return ("call", short_callee(name)) + args
    if k == "call_local":
        if e[1] in opfns:
            return ("op", e[1]) + tuple(show(norm(a)) for a in e[2])
        return ("enter", e[1])
    if k == "iter_next":
        return ("next", show(norm(e[1])), e[2])
    if k == "iter_end":
        return ("end", show(norm(e[1])), e[2])
    if k == "assert":
        return ("assert", e[1])
    return (k,) + tuple(str(x) for x in e[1:])


def make_abbr(evs):
    """await(<evaluator>(X, ctx)) -> ev(X) in rendered terms"""
    pat = "await(" + evs + "("

    def abbr(s):
        out = []
        i = 0
        while True:
            k = s.find(pat, i)
            if k < 0:
                out.append(s[i:])
                break
            out.append(s[i:k])
            j = k + len(pat)
            depth = 1
            start = j
            first_end = None
            while j < len(s) and depth > 0:
                ch = s[j]
                if ch == "(":
                    depth += 1
                elif ch == ")":
                    depth -= 1
                elif ch == "," and depth == 1 and first_end is None:
                    first_end = j
                j += 1
            # j is just after the ')' closing evs( ; next char must be ')' closing await(
            arg0 = s[start:first_end if first_end is not None else j - 1]
            if arg0 == "ctx" and first_end is not None:
                arg0 = s[first_end + 1:j - 1].strip()      # `ctx.eval(node)`: the node is the second argument
            if j < len(s) and s[j] == ")":
                j += 1
            out.append("ev(" + abbr(arg0) + ")")
            i = j
        return "".join(out)
    return abbr


def compute(f, loop_bound=2):
    key = (getattr(f, "path", id(f)), loop_bound)
    if key in _cache:
        return _cache[key]
    disp = evalsum.dispatch_rows(f, loop_bound=loop_bound)
    if not disp:
        return None
    opfns = evalsum.operator_functions(f, disp)
    rows = {}
    op_of_kind = {}
    abbr = make_abbr(short_callee(disp["fn"]))
    for kind, paths in disp["rows"].items():
        npaths = []
        for p in paths:
            evs = [norm_event(e, disp["fn"], opfns) for e in p["events"]]
            # an opaque operator call shows up as a 'call' event with the operator's path
            evs2 = []
            for e, raw in zip(evs, p["events"]):
                if raw[0] == "call" and raw[1] in opfns:
                    oargs = [show(norm(a)) for a in raw[2]]
                    order = evalsum.operand_order(f, raw[1])
                    if len(order) == len(oargs):
                        oargs = [oargs[i] for i in order]
                    e = ("op", raw[1]) + tuple(oargs)
                    op_of_kind.setdefault(kind, set()).add(raw[1])
                evs2.append(tuple(abbr(x) if isinstance(x, str) else x for x in e))
            npaths.append({
                "conds": tuple(sorted(set((abbr(a), b) for a, b in (norm_cond(c) for c in p["conds"])))),
                "events": tuple(evs2),
                "ret": abbr(show(norm(p["ret"]))),
                "flags": tuple(sorted(p["flags"])),
            })
        rows[kind] = npaths
    cells = {}
    for fn in []:      # per-function tables are superseded by cells_by_kind (kept for tools/gen_optable history)
        raw = evalsum.operator_cells(f, fn)
        table = {}
        for combo, outs in raw.items():
            table[combo] = [{
                "conds": tuple(sorted(set(norm_cond(c) for c in o["conds"]))),
                "ret": show(norm(o["ret"])),
                "cls": evalsum.outcome_class(o["ret"]),
                "asserts": tuple(e[1] for e in o["events"] if e[0] == "assert"),
                "flags": tuple(sorted(o["flags"])),
            } for o in outs]
        cells[fn] = table
    # the operator table by node kind, through the evaluator's own arm (independent of how operators are factored)
    raw_k = evalsum.kind_cells(f, disp, [v["name"] for v in f.adts[evalsum.EXPR]["variants"]])
    cells_by_kind = {}
    for kind, tab in raw_k.items():
        cells_by_kind[kind] = {}
        for combo, outs in tab.items():
            cells_by_kind[kind][combo] = [{
                "conds": tuple(sorted(set(norm_cond(c) for c in o["conds"]))),
                "ret": show(norm(o["ret"])),
                "cls": evalsum.outcome_class(o["ret"]),
                "asserts": tuple(e[1] for e in o["events"] if e[0] == "assert"),
                "flags": tuple(sorted(o["flags"])),
            } for o in outs]
    # which operator cells a panic site belongs to: (function, assert message) / callee name -> {(kind, operand tags)}
    site_cells = {}
    for kind, tab in raw_k.items():
        for combo, outs in tab.items():
            for o in outs:
                for e in o["events"]:
                    if e[0] == "assert" and len(e) > 2:
                        site_cells.setdefault(("assert", e[2], str(e[1]).split(":")[0]), set()).add((kind, tuple(combo)))
                for nm_, where_ in (o.get("call_sites") or {}).items():
                    for w_ in where_:
                        site_cells.setdefault(("call", w_, short_callee(nm_)), set()).add((kind, tuple(combo)))
    out = {"loop_bound": loop_bound, "evaluator": disp["fn"], "coroutine": disp["coroutine"], "rows": rows, "opfns": opfns, "site_cells": site_cells,
           "op_of_kind": {k: sorted(v) for k, v in op_of_kind.items()}, "cells": cells, "cells_by_kind": cells_by_kind}
    # the context's lookup methods are private: they are named after their role (the method a Reference / Symbol /
    # Function node calls) so that the specification does not depend on what the crate calls them today
    import anchors
    try:
        a = anchors.resolve(f, table=out)
        out["anchors"] = a
        ren = {actual + "(": "EvalContext::%s(" % r for actual, r in a["role_callee"].items() if actual != "EvalContext::" + r}
        names = {actual: "EvalContext::" + r for actual, r in a["role_callee"].items() if actual != "EvalContext::" + r}
    except Exception:
        ren, names = {}, {}
    if ren:
        def fix(x):
            if isinstance(x, str):
                for o, n in ren.items():
                    x = x.replace(o, n)
                return names.get(x, x)
            if isinstance(x, tuple):
                return tuple(fix(y) for y in x)
            return x
        for kind in rows:
            rows[kind] = [{"conds": fix(pth["conds"]), "events": fix(pth["events"]), "ret": fix(pth["ret"]), "flags": pth["flags"]} for pth in rows[kind]]
    _cache[key] = out
    return out
