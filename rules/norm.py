"""Normal forms of TSS terms, so that behaviour-preserving rewrites compare equal.

 * resolved callee paths are shortened to  Type::method  (generic arguments dropped)
 * checked primitive + assert  ==  the primitive;  `checked_*`/`try_*` spellings of an
   operation normalise to the same operation name (their failure branch is reported as a
   separate outcome conditioned on "<op> fails")
 * references, boxes, clones, reborrows are transparent
 * commutative operations are argument-sorted, mirrored comparisons are flipped (Gt(a,b) == Lt(b,a))
"""
import re

# spelling of an operation that reports failure through Option/Result  ->  canonical operation
FALLIBLE_EQUIV = {
    "i128::checked_add": "Add", "i128::checked_sub": "Sub", "i128::checked_mul": "Mul",
    "i128::checked_div": "Div", "i128::checked_rem": "Rem", "i128::checked_neg": "Neg",
    "Decimal::checked_add": "Decimal::add", "Decimal::checked_sub": "Decimal::sub",
    "Decimal::checked_mul": "Decimal::mul", "Decimal::checked_div": "Decimal::div",
    "Decimal::checked_rem": "Decimal::rem",
    "DateTime::checked_add_signed": "DateTime::add<TimeDelta>",
    "DateTime::checked_sub_signed": "DateTime::sub<TimeDelta>",
    "TimeDelta::checked_add": "TimeDelta::add", "TimeDelta::checked_sub": "TimeDelta::sub",
}
OVERFLOW_OPS = {"AddWithOverflow": "Add", "SubWithOverflow": "Sub", "MulWithOverflow": "Mul"}
PRIM_OPS = {"add": ("Add", 2), "sub": ("Sub", 2), "mul": ("Mul", 2), "div": ("Div", 2), "rem": ("Rem", 2), "bitand": ("BitAnd", 2),
            "bitor": ("BitOr", 2), "bitxor": ("BitXor", 2), "neg": ("Neg", 1), "not": ("Not", 1), "lt": ("Lt", 2), "le": ("Le", 2),
            "gt": ("Gt", 2), "ge": ("Ge", 2), "eq": ("Eq", 2), "ne": ("Ne", 2)}
PRIM_OP = re.compile(r"^(i8|i16|i32|i64|i128|isize|u8|u16|u32|u64|u128|usize|f32|f64|bool|char)::(%s)(?:<\1>)?$" % "|".join(PRIM_OPS))
COMMUTATIVE = {"Add", "Mul", "BitAnd", "BitOr", "BitXor", "Eq", "Ne", "Decimal::add", "Decimal::mul"}
MIRROR = {"Gt": "Lt", "Ge": "Le"}
TRANSPARENT_CALLS = {"String::clone", "str::to_owned", "str::to_string", "String::to_string", "String::from", "String::as_str",
                     "String::from<str>", "String::from<&str>", "String::from<String>", "to_owned"}


FACTS = None   # set by framework.get_facts: lets struct values made of named field symbols collapse to their base


def strip_generics(s):
    """remove every ::<...> turbofish group (balanced)"""
    out = []
    i = 0
    n = len(s)
    while i < n:
        if s.startswith("::<", i):
            depth = 0
            j = i + 2
            while j < n:
                if s[j] == "<":
                    depth += 1
                elif s[j] == ">" and s[j - 1] != "-":
                    depth -= 1
                    if depth == 0:
                        break
                j += 1
            # `path::<impl T>::method` is an impl-block segment (kept); `f::<impl Trait>` at the end is a turbofish
            is_impl_segment = s.startswith("::<impl ", i) and s.startswith("::", j + 1) and not s.startswith("::{", j + 1)
            if not is_impl_segment:
                i = j + 1
                continue
        out.append(s[i])
        i += 1
    return "".join(out)


def balanced_inner(s, start):
    """s[start] == '<' : return (inner, index after matching '>')"""
    depth = 0
    for j in range(start, len(s)):
        if s[j] == "<":
            depth += 1
        elif s[j] == ">" and s[j - 1] != "-":
            depth -= 1
            if depth == 0:
                return s[start + 1:j], j + 1
    return s[start + 1:], len(s)


def last_seg(t):
    """chrono::DateTime<chrono::Utc> -> DateTime ; &std::string::String -> String ; [value::Value] -> [Value]"""
    t = t.strip()
    if t.startswith("{async fn body of ") or t.startswith("{async block"):
        inner = t[1:-1].replace("async fn body of ", "").replace("()", "")
        return "async " + inner.split("::")[-1].split("@")[0]
    if t.startswith("dyn "):
        return "dyn " + last_seg(t[4:].split(" + ")[0])
    while t.startswith("&"):
        t = t[1:].lstrip()
        if t.startswith("mut "):
            t = t[4:]
    if t.startswith("[") and t.endswith("]"):
        return "[" + last_seg(t[1:-1]) + "]"
    # drop generic args
    depth = 0
    base = []
    for i, ch in enumerate(t):
        if ch == "<":
            depth += 1
        elif ch == ">" and (i == 0 or t[i - 1] != "-"):
            depth -= 1
        elif depth == 0:
            base.append(ch)
    base = "".join(base)
    return base.split("::")[-1]


def split_as(inner):
    """'T as Trait<..>' -> (T, Trait<..>) at top-level ' as '"""
    depth = 0
    i = 0
    while i < len(inner):
        ch = inner[i]
        if ch == "<":
            depth += 1
        elif ch == ">" and inner[i - 1] != "-":
            depth -= 1
        elif depth == 0 and inner.startswith(" as ", i):
            return inner[:i], inner[i + 4:]
        i += 1
    return inner, None


def trait_arg(tr):
    """std::ops::Sub<chrono::TimeDelta> -> TimeDelta ; std::ops::Sub -> None"""
    k = tr.find("<")
    if k < 0:
        return None
    inner, _ = balanced_inner(tr, k)
    return last_seg(inner.split(",")[0])


STR_PARSE = re.compile(r"^core::str::<impl str>::parse::<(.+)>$")


def short_callee(full):
    """canonical short name of a resolved callee path"""
    s = full
    method = None
    # `text.parse::<T>()` is `T::from_str(text)` (its whole body)
    m0 = STR_PARSE.match(s)
    if m0:
        return "%s::from_str" % last_seg(strip_generics(m0.group(1)))
    # <T as Trait>::method...
    if s.startswith("<"):
        inner, after = balanced_inner(s, 0)
        t, tr = split_as(inner)
        rest = strip_generics(s[after:])
        method = rest.split("::")[-1]
        name = "%s::%s" % (last_seg(t), method)
        if tr:
            ta = trait_arg(tr)
            trait_name = last_seg(tr)
            if ta and trait_name in ("Add", "Sub", "Mul", "Div", "Rem", "From", "TryFrom", "PartialEq", "PartialOrd", "Into", "TryInto"):
                name += "<%s>" % ta
        return name
    # path::<impl Trait for T>::method   /  path::<impl T>::method
    m = re.search(r"<impl (.*)>::([A-Za-z_0-9]+)", strip_generics(s))
    if m:
        s = strip_generics(s)
        k = s.find("<impl ")
        inner, after = balanced_inner(s, k)
        inner = inner[5:]
        rest = strip_generics(s[after:])
        method = rest.split("::")[-1]
        depth = 0
        t = inner
        tr = None
        for i in range(len(inner)):
            ch = inner[i]
            if ch == "<":
                depth += 1
            elif ch == ">" and inner[i - 1] != "-":
                depth -= 1
            elif depth == 0 and inner.startswith(" for ", i):
                tr, t = inner[:i], inner[i + 5:]
                break
        name = "%s::%s" % (last_seg(t), method)
        if tr:
            ta = trait_arg(tr)
            if ta and last_seg(tr) in ("Add", "Sub", "Mul", "Div", "Rem", "From", "TryFrom"):
                name += "<%s>" % ta
        return name
    s2 = strip_generics(s)
    parts = s2.split("::")
    if len(parts) >= 2:
        return "%s::%s" % (last_seg(parts[-2]), parts[-1])
    return s2


INT_RADIX = re.compile(r"^(i8|i16|i32|i64|i128|isize|u8|u16|u32|u64|u128|usize)::from_str_radix(!|!err)?$")


def canon_call(name, args):
    """library identities between spellings of one call"""
    # `T::from_str(s)` is `T::from_str_radix(s, 10)` (its whole body) for the integer types
    m = INT_RADIX.match(name)
    if m and len(args) == 2 and args[1] == "10":
        return "%s::from_str%s" % (m.group(1), m.group(2) or ""), args[:1]
    # `&s[a..s.len()]` is `&s[a..]`
    if name == "str::index" and len(args) == 2 and isinstance(args[1], tuple) and len(args[1]) == 3 and args[1][0] == "Range" \
            and args[1][2] == ("str::len", args[0]):
        return name, [args[0], ("RangeFrom", args[1][1])]
    # `&s[a..][..t.len() - b]` with t = &s[a..] is `&s[a..s.len() - b]`
    if name == "str::index" and len(args) == 2 and isinstance(args[0], tuple) and args[0][:1] == ("str::index",) and len(args[0]) == 3 \
            and isinstance(args[0][2], tuple) and args[0][2][:1] == ("RangeFrom",) and isinstance(args[1], tuple) and args[1][:1] == ("RangeTo",) \
            and len(args[1]) == 2 and isinstance(args[1][1], tuple) and args[1][1][:1] == ("Sub",) and len(args[1][1]) == 3 \
            and args[1][1][1] == ("str::len", args[0]):
        base, a_ = args[0][1], args[0][2][1]
        return name, [base, ("Range", a_, ("Sub", ("str::len", base), args[1][1][2]))]
    # `a.partial_cmp(&b).is_some_and(Ordering::is_gt)` is `a > b` (also for unordered operands: both are false)
    if name == "Option::is_some_and" and len(args) == 2 and isinstance(args[0], tuple) and len(args[0]) == 3 and \
            str(args[0][0]).endswith("::partial_cmp") and isinstance(args[1], str) and args[1].startswith("fn Ordering::is_"):
        ty_ = args[0][0][:-len("::partial_cmp")]
        a_, b_ = args[0][1], args[0][2]
        which = args[1][len("fn Ordering::is_"):]
        prim = ty_ in ("i8", "i16", "i32", "i64", "i128", "isize", "u8", "u16", "u32", "u64", "u128", "usize", "f32", "f64", "bool", "char")
        table = {"gt": ("lt", b_, a_), "ge": ("le", b_, a_), "lt": ("lt", a_, b_), "le": ("le", a_, b_)}
        if which in table:
            op_, x_, y_ = table[which]
            if prim:
                return ("Lt" if op_ == "lt" else "Le"), [x_, y_]
            return "%s::%s" % (ty_, op_), [x_, y_]
    # `c.encode_utf8(&mut [0u8; N])` with N >= 4 (the longest UTF-8 form of a char) is the text of `c.to_string()`;
    # with a shorter buffer it panics for some chars and stays what it is
    if name == "char::encode_utf8" and len(args) == 2 and isinstance(args[1], tuple) and len(args[1]) == 2 \
            and re.fullmatch(r"repeat\d+", str(args[1][0])) and int(args[1][0][6:]) >= 4:
        return "char::to_string", args[:1]
    return name, args


def norm(v):
    """normalised term (nested tuples of strings) of a resolved TSS value"""
    k = v[0]
    if k in ("rref", "box", "ref"):
        return norm(v[1]) if k != "ref" else ("ptr",)
    if k == "sym":
        return v[1]
    if k == "const":
        if v[1] == "zst":
            return "<%s>" % v[2]
        return repr(v[2])
    if k == "adt":
        name = v[2]
        # a value with a known variant that is re-assembled from its own projections is that value
        # (`match x { Value::Int(i) => Value::Int(i) }` / a catch-all binding after other arms)
        if v[3] and v[1] not in ("std::option::Option", "std::result::Result"):
            base = None
            same = True
            for i, x in enumerate(v[3]):
                y = x
                while y[0] in ("rref", "box"):
                    y = y[1]
                if y[0] == "proj" and y[2] == ("vf", v[2], i) and (base is None or base == y[1]):
                    base = y[1]
                else:
                    same = False
                    break
            if same and base is not None:
                return norm(base)
        if v[1] == "std::option::Option" and name == "None":
            name = "Option::None"     # keep apart from the Value::None / Expr::None constructors
        args = tuple(norm(x) for x in v[3])
        # a struct rebuilt from the named field symbols of one value is that value
        if FACTS is not None and args and all(isinstance(a, str) and "." in a for a in args):
            a = FACTS.adts.get(v[1])
            if a and a["kind"] == "struct" and a["local"]:
                names = [fl["name"] for fl in a["variants"][0]["fields"]]
                bases = set(x.rsplit(".", 1)[0] for x in args)
                if len(bases) == 1 and [x.rsplit(".", 1)[1] for x in args] == names:
                    return bases.pop()
        return (name,) + args if args else name
    if k == "tup":
        return ("tuple",) + tuple(norm(x) for x in v[1])
    if k == "op":
        name = v[1]
        args = [norm(x) for x in v[2]]
        if name == "to_owned" and len(args) == 1:
            return args[0]
        if name in MIRROR:
            name = MIRROR[name]
            args = args[::-1]
        if name in COMMUTATIVE:
            args = sorted(args, key=repr)
        if name.startswith("cast:"):
            name = name.replace("std::", "")
        if name in ("Sub", "Add") and len(args) == 2 and args[1] == "0":
            return args[0]
        # comparing a boolean with a constant: `b != false` = `b == true` = b ; `b != true` = `b == false` = !b
        if name in ("Eq", "Ne") and len(args) == 2 and any(a in ("True", "False") for a in args):
            const = [a for a in args if a in ("True", "False")][0]
            other = [a for a in args if a is not const][0] if args[0] is not args[1] else args[1]
            if other not in ("True", "False"):
                same = (const == "True") == (name == "Eq")
                return other if same else ("Not", other)
        return (name,) + tuple(args)
    if k == "call":
        name = short_callee(v[1])
        args = [norm(x) for x in v[2]]
        if name in TRANSPARENT_CALLS and len(args) == 1:
            return args[0]
        if "PartialOrd" not in v[1]:
            pass
        elif name.endswith("::gt") and len(args) == 2:
            name, args = name[:-2] + "lt", args[::-1]
        elif name.endswith("::ge") and len(args) == 2:
            name, args = name[:-2] + "le", args[::-1]
        # an operator trait method on a primitive type is the primitive operation (`T: BitAnd` at T = i128)
        pm = PRIM_OP.match(name)
        if pm and len(args) == PRIM_OPS[pm.group(2)][1]:
            name = PRIM_OPS[pm.group(2)][0]
            if name in ("Gt", "Ge") and len(args) == 2:
                name, args = ("Lt" if name == "Gt" else "Le"), args[::-1]
        if name in COMMUTATIVE:
            args = sorted(args, key=repr)
        name, args = canon_call(name, args)
        t = (name,) + tuple(args)
        if len(v) > 3:
            t = t + ("#%d" % v[3],)
        return t
    if k == "await":
        return ("await", norm(v[1]))
    if k == "proj":
        base = v[1]
        e = v[2]
        # (a op b with overflow flag).0  ==  a op b
        if e == ("field", 0) and base[0] == "op" and base[1] in OVERFLOW_OPS:
            name = OVERFLOW_OPS[base[1]]
            args = [norm(x) for x in base[2]]
            if name in ("Sub", "Add") and len(args) == 2 and args[1] == "0":
                return args[0]
            if name in COMMUTATIVE:
                args = sorted(args, key=repr)
            return (name,) + tuple(args)
        if e[0] == "vf" and base[0] == "call":
            sc = short_callee(base[1])
            if sc in FALLIBLE_EQUIV and e[1] in ("Some", "Ok"):
                name = FALLIBLE_EQUIV[sc]
                args = [norm(x) for x in base[2]]
                if name in COMMUTATIVE:
                    args = sorted(args, key=repr)
                return (name,) + tuple(args)
        if e[0] == "vf" and base[0] == "call" and e[1] in ("Some", "Ok") and e[2] == 0:
            # the value a fallible call produced when it succeeded
            sc, a_ = canon_call(short_callee(base[1]) + "!", [norm(x) for x in base[2]])
            return (sc,) + tuple(a_)
        if e[0] == "vf" and base[0] == "call" and e[1] == "Err" and e[2] == 0:
            sc, a_ = canon_call(short_callee(base[1]) + "!err", [norm(x) for x in base[2]])
            return (sc,) + tuple(a_)
        nb = norm(base)
        if e[0] == "vf":
            return ("." + e[1] + "." + str(e[2]), nb)
        if e[0] == "field":
            return ("." + str(e[1]), nb)
        if e[0] == "deref":
            return nb
        return ("." + ",".join(str(x) for x in e), nb)
    if k == "iter":
        return ("elem%d" % v[2], norm(v[1]))
    if k in ("closure", "coroutine"):
        return (k, v[1]) + tuple(norm(x) for x in v[2])
    if k == "fn":
        return "fn " + short_callee(v[1])
    if k == "diverge":
        return ("PANIC", short_callee(v[1]))
    if k == "discr":
        return ("discr", norm(v[-1]))
    if k == "uninit":
        return "<uninit>"
    return str(v)


def show(t):
    if isinstance(t, str):
        return t
    if not t:
        return "()"
    head = t[0]
    if len(t) == 1:
        return head + "()"
    if head.startswith(".") and len(t) == 2:
        return show(t[1]) + head
    return "%s(%s)" % (head, ", ".join(show(x) for x in t[1:]))


def norm_cond(c):
    """(subject term, relation) ; fallible-primitive conditions become ('op', 'ok'|'fails')"""
    subj, rel, val = c
    if subj[0] == "call" and rel == "is":
        sc = short_callee(subj[1])
        if sc in FALLIBLE_EQUIV:
            name = FALLIBLE_EQUIV[sc]
            args = [norm(x) for x in subj[2]]
            if name in COMMUTATIVE:
                args = sorted(args, key=repr)
            return (show((name,) + tuple(args)), "ok" if val in ("Some", "Ok") else "fails")
    if subj[0] == "call" and rel == "is" and val in ("Some", "Ok", "None", "Err"):
        sc_, a_ = canon_call(short_callee(subj[1]), [norm(x) for x in subj[2]])
        t = (sc_,) + tuple(a_)
        if len(subj) > 3:
            t = t + ("#%d" % subj[3],)
        return (show(t), "ok" if val in ("Some", "Ok") else "fails")
    t = norm(subj)
    if rel == "val" and isinstance(t, tuple) and t and t[0] == "Ne" and str(val) in ("0", "not:0"):
        # `a != b` is false  <=>  `a == b` is true
        return (show(("Eq",) + tuple(t[1:])), "val %s" % ("not:0" if str(val) == "0" else "0"))
    return (show(t), "%s %s" % (rel, val))
