"""C18 — rulesets can be shared across threads and evaluated from any task.

Decided by the type checker: a witness crate path-depending on the analysed tree is type-checked
(cargo check, never run).  Each assertion is one obligation; rustc is the checker.  Negative twins
(thorough tier) show that the assertion helpers really reject !Send / !Sync types."""
import hashlib
import json
import os
import re
import shutil
import subprocess

import runner
from framework import Inconclusive, VERIF

LEVEL = "proof"
SRC = os.path.join(VERIF, "engines", "typewit")


def prepare(repo):
    key = hashlib.sha256(repo.encode()).hexdigest()[:10]
    d = os.path.join(runner.CACHE, "typewit-" + key)
    if os.path.isdir(d):
        shutil.rmtree(d)
    shutil.copytree(os.path.join(SRC, "src"), os.path.join(d, "src"))
    with open(os.path.join(SRC, "Cargo.toml.in")) as fh:
        toml = fh.read().replace("@REPO@", repo)
    with open(os.path.join(d, "Cargo.toml"), "w") as fh:
        fh.write(toml)
    lock = os.path.join(repo, "Cargo.lock")
    if os.path.exists(lock):
        shutil.copyfile(lock, os.path.join(d, "Cargo.lock"))
    return d


def cargo_check(d, args):
    env = dict(os.environ)
    env.update({"CARGO_NET_OFFLINE": "true", "CARGO_TARGET_DIR": os.path.join(runner.CACHE, "target-typewit"),
                "RUSTFLAGS": "-Awarnings"})
    env.pop("RUSTC_WORKSPACE_WRAPPER", None)
    r = subprocess.run(["cargo", "check", "--offline", "--message-format=json"] + args, cwd=d, env=env,
                       stdout=subprocess.PIPE, stderr=subprocess.PIPE, text=True)
    diags = []
    for line in r.stdout.splitlines():
        try:
            m = json.loads(line)
        except ValueError:
            continue
        if m.get("reason") == "compiler-message" and m["message"].get("level") == "error":
            diags.append(m)
    return r.returncode, diags, r.stderr


def run(res, f, tier):
    repo = runner.REPO
    d = prepare(repo)
    labels = {}
    with open(os.path.join(d, "src", "lib.rs")) as fh:
        for i, line in enumerate(fh, 1):
            m = re.search(r"//@ (.*)$", line)
            if m:
                labels[i] = m.group(1).strip()
    res.floor("auto-trait assertions in the witness crate", len(labels), 15)
    rc, diags, stderr = cargo_check(d, ["--lib"])
    failed = {}
    other_errors = []
    for m in diags:
        msg = m["message"]
        target = m.get("target", {}).get("name")
        pkg = m.get("package_id", "")
        if "typewit" not in pkg:
            other_errors.append(msg.get("message"))
            continue
        lines = [sp["line_start"] for sp in msg.get("spans", []) if sp.get("is_primary") and sp["file_name"].endswith("lib.rs")]
        hit = [l for l in lines if l in labels]
        if hit:
            failed[hit[0]] = {"code": (msg.get("code") or {}).get("code"), "message": msg.get("message"), "rendered": (msg.get("rendered") or "")[:1500]}
        else:
            other_errors.append(msg.get("message"))
    if rc != 0 and not failed:
        raise Inconclusive("the witness crate does not compile for a reason other than its assertions: %s %s" % (other_errors[:3], stderr[-800:]))
    for line, info in sorted(failed.items()):
        res.violation("C18|%s" % labels[line], "rustc rejects the assertion `%s`: %s" % (labels[line], info["message"]), info)
    obligations = len(labels)
    discharged = obligations - len(failed)
    twins = []
    if tier == "thorough":
        for neg, pos in (("neg_rc", "pos_rc"), ("neg_future", "pos_future")):
            rc_n, dn, _ = cargo_check(d, ["--bin", neg])
            rc_p, dp, se = cargo_check(d, ["--bin", pos])
            codes = [(m["message"].get("code") or {}).get("code") or m["message"].get("message", "")[:60] for m in dn if "typewit" in m.get("package_id", "")]
            ok = rc_n != 0 and rc_p == 0 and any(c == "E0277" or "cannot be sent between threads safely" in c or "cannot be shared between threads safely" in c for c in codes)
            twins.append({"negative": neg, "rejected_with": codes, "positive": pos, "positive_compiles": rc_p == 0})
            if not ok:
                raise Inconclusive("non-vacuity twins %s/%s did not behave as expected (%s)" % (neg, pos, twins[-1]))
    # The second sentence of the property (concurrent evaluations of one shared ruleset return the same outcomes as
    # sequential ones) is not a type fact.  Its structural premise is that evaluations share nothing mutable: the
    # shared-state obligations of C12 (statics, thread-locals, interior-mutable fields, hand-written unsafe) are
    # imported; a violation there is a violation here.
    import c12
    from framework import Result
    r12 = Result("C12", "other")
    c12.run(r12, f, tier)
    shared = [v for v in r12.violations if v["key"].split("|")[1] in ("static", "field", "unsafe", "unsafe-impl", "unsafe-fn")]
    obligations += 1
    if shared:
        res.violation("C18|shared-mutable-state", "evaluations running concurrently can observe each other through shared mutable state: %s" % [v["what"][:140] for v in shared[:3]],
                      {"c12_findings": [v["key"] for v in shared]})
    else:
        discharged += 1
    # cross-reference with the driver's own facts: no hand-written `unsafe impl Send/Sync` in the crate
    unsafe_impls = [i for i in f.impls if i.get("unsafe")]
    res.coverage = {
        "obligations": obligations,
        "discharged": discharged,
        "checker_cmd": "cargo check --offline --lib   (in a witness crate path-depending on the analysed tree; engines/typewit)",
        "trusted_base": ["rustc's trait solver (auto traits, coroutine witness types)", "the witness source engines/typewit/src/lib.rs"],
        "explanation": "each `//@` line of the witness crate is one Send/Sync obligation decided by rustc for every instantiation; nothing is executed",
        "samples": [labels[k] for k in sorted(labels)],
        "negative_twins": twins,
        "unsafe_impls_in_crate": [i["def"] for i in unsafe_impls],
        "exhaustive": True,
    }
    res.assumptions = ["the clause 'concurrent evaluations return the same outcomes' is not a type fact; it rests on the shared-nothing / read-only structure established by C12",
                       "no `unsafe impl Send/Sync` is hand-written in the crate (checked from the driver's facts: %d unsafe impls)" % len(unsafe_impls)]
