"""Structural location of the crate-private functions the rules talk about.

Public API names (Expr::evaluate, RuleSet::evaluate_value, Builder::with_rule ...) are part of the property statements
and are looked up by name.  Private helpers are found by what they are — their position in the call structure and
their signature — so that renaming one of them is not mistaken for a missing anchor:

  ctx type           the type behind the evaluator's context parameter
  role methods       the context method the evaluator calls for a Reference / Symbol / Function node
  rs_call            the RuleSet method the context's function-call method calls
  uf_call            the UserFunctions method rs_call calls (it receives the cache by `&mut`)
  uf_get             the UserFunctions method uf_call uses to look the function up
  rs_symbol / symbols_get   the RuleSet / Symbols methods behind the context's symbol method
  ctx_new            the context constructor (associated function returning the context type)
  eval_rule          the Expr method other than the public `evaluate` that builds a context and runs the evaluator
"""
import evalsum
from framework import Inconclusive
from mir import callee_of
from norm import short_callee

_memo = {}


def tree(f, d):
    """a body and the closures / coroutine bodies nested in it"""
    out = [d]
    for p, b in f.bodies.items():
        q = b.get("parent")
        while q:
            if q == d:
                out.append(p)
                break
            q = f.bodies.get(q, {}).get("parent")
    return out


def tree_callees(f, d):
    out = []
    for p in tree(f, d):
        for blk in f.bodies[p]["blocks"]:
            t = blk["term"]
            if t["k"] == "call":
                c = callee_of(t)
                q = c and (c.get("resolved") or c["path"])
                if q in f.bodies and q not in out and not f.bodies[q].get("parent"):
                    out.append(q)
    return out


def self_of(f, d):
    return (f.bodies[d].get("impl") or {}).get("self_s", "")


def one(xs, what):
    xs = sorted(set(xs))
    if len(xs) != 1:
        raise Inconclusive("anchor %s not found structurally (%s)" % (what, xs))
    return xs[0]


class Anchors(dict):
    """anchors resolved on first use; a failed resolution is raised (as Inconclusive) where the anchor is needed"""

    def lazy(self, key, fn):
        self.setdefault("__lazy__", {})[key] = fn

    def __missing__(self, key):
        fn = dict.get(self, "__lazy__", {}).get(key)
        if fn is None:
            raise KeyError(key)
        v = fn()
        self[key] = v
        return v


class ShortNames(dict):
    def __init__(self, a, f):
        super().__init__()
        self.a, self.f = a, f

    def __missing__(self, key):
        v = short_callee(self.a[key])
        self[key] = v
        return v


def resolve(f, table=None):
    key = getattr(f, "path", id(f))
    if key in _memo:
        return _memo[key]
    ev = evalsum.find_evaluator(f)
    if not ev:
        raise Inconclusive("recursive evaluator not found")
    fn_path, cor_path = ev
    fb = f.bodies[fn_path]
    ctx_ty = None
    for i in range(1, fb["arg_count"] + 1):
        t = f.ty_s(fb["locals"][i]["ty"])
        if t.startswith("&mut ") and evalsum.EXPR not in t:
            ctx_ty = t[5:]
    if not ctx_ty:
        raise Inconclusive("the evaluator has no `&mut` context parameter")
    ctx_base = ctx_ty.split("<")[0]
    if table is None:
        import optable
        table = optable.compute(f)
        if table and "anchors" in table:
            _memo[key] = table["anchors"]
            return table["anchors"]
    role = {}
    role_callee = {}
    comp_short = {c.split("::")[-1] for c in evalsum.context_components(f)}
    by_short = {}
    for d, b in f.bodies.items():
        if not b.get("parent"):
            by_short.setdefault(short_callee(d), []).append(d)
    for kind, r in (("Reference", "reference"), ("Symbol", "symbol"), ("Function", "call_function")):
        names = set()
        results = set()
        for p in table["rows"].get(kind, []):
            for e in p["events"]:
                if e[0] == "call" and e[1].split("::")[0] in comp_short:
                    names.add(e[1])
                    # the lookup proper is the call whose outcome is the node's result
                    if e[1] + "(" in str(p["ret"]):
                        results.add(e[1])
        if len(names) > 1 and len(results) == 1:
            names = results
        nm = one(names, "context method for %s nodes" % kind)
        role[r] = one(by_short.get(nm, []), "context method %s" % nm)
        role_callee[nm] = r
    a = Anchors({"evaluator": ev, "ctx_type": ctx_ty, "ctx_short": ctx_base.split("::")[-1],
                 "ctx_reference": role["reference"], "ctx_symbol": role["symbol"], "ctx_call": role["call_function"],
                 "role_names": {f.bodies[v]["name"]: k for k, v in role.items()}, "role_callee": role_callee})

    def takes_cache(q):
        b_ = f.bodies[q]
        return self_of(f, q) == "function::UserFunctions" and any(f.ty_s(b_["locals"][i]["ty"]).startswith("&mut ") for i in range(2, b_["arg_count"] + 1))

    def route_chain():
        # the route of a user-function call from the context down to the function table: the UserFunctions method that
        # takes the cache by `&mut`, reached directly or through intermediate holders of the function table (a RuleSet
        # method today, an `Environment` method elsewhere) that are handed the cache as well
        def hands_cache_on(q):
            b_ = f.bodies[q]
            return any(f.ty_s(b_["locals"][i]["ty"]).startswith("&mut ") for i in range(2, b_["arg_count"] + 1))
        paths = [[a["ctx_call"]]]
        found = []
        for _ in range(4):
            nxt = []
            for pth in paths:
                for q in tree_callees(f, pth[-1]):
                    if q in pth:
                        continue
                    if takes_cache(q):
                        found.append(pth + [q])
                    elif hands_cache_on(q):
                        nxt.append(pth + [q])
            if found:
                break
            paths = nxt
        ends = sorted(set(p_[-1] for p_ in found))
        if len(ends) != 1 or len(found) != 1:
            raise Inconclusive("anchor route from the context's function call to the function table not found structurally (%s)" % [[short_callee(x) for x in p_] for p_ in found])
        return found[0]

    def route():
        ch = route_chain()
        return (ch[1] if len(ch) == 3 else None), ch[-1]

    def ctx_constructors():
        news = []
        for d, b in f.bodies.items():
            if b["kind"] == "AssocFn" and self_of(f, d).split("<")[0] == ctx_base and ctx_base in f.ty_s(b["locals"][0]["ty"]):
                if not b["arg_count"] or ctx_base not in f.ty_s(b["locals"][1]["ty"]):
                    news.append(d)
        return sorted(news)

    # every further anchor is resolved on its own: a check is inconclusive only about what it needs
    a.lazy("call_route", route_chain)
    a.lazy("rs_call", lambda: route()[0])
    a.lazy("uf_call", lambda: route()[1])
    def uf_get():
        c = [q for q in tree_callees(f, a["uf_call"]) if self_of(f, q) == "function::UserFunctions" and q != a["uf_call"]]
        if len(c) > 1:
            # the lookup hands out a reference to the registered function; other helpers (an associated `invoke`) do not
            refs = [q for q in c if f.ty_s(f.bodies[q]["locals"][0]["ty"]).startswith(("std::result::Result<&", "std::option::Option<&"))]
            c = refs or c
        return one(c, "function lookup used by UserFunctions::call")
    a.lazy("uf_get", uf_get)
    a.lazy("rs_symbol", lambda: one([q for q in tree_callees(f, a["ctx_symbol"]) if self_of(f, q) == "ruleset::RuleSet"],
                                    "RuleSet method called by the context's symbol lookup"))
    a.lazy("symbols_get", lambda: one([q for q in tree_callees(f, a["rs_symbol"]) if self_of(f, q) == "symbol::Symbols"],
                                      "Symbols method called by RuleSet's symbol lookup"))
    def symbol_chain():
        # the crate-local lookups behind the context's symbol method, outermost first (RuleSet::get_symbol and
        # Symbols::get today; a context holding the symbol table directly has only the latter)
        chain, work = [], [a["ctx_symbol"]]
        while work:
            for q in tree_callees(f, work.pop()):
                if (self_of(f, q) in ("ruleset::RuleSet", "symbol::Symbols") or (self_of(f, q).split("<")[0] in f.adts and f.adts[self_of(f, q).split("<")[0]].get("local")
                                                                                   and self_of(f, q) != a["ctx_type"].split("<")[0] and not f.bodies[q].get("coroutine_kind")
                                                                                   and f.ty_s(f.bodies[q]["locals"][0]["ty"]).startswith("std::result::Result<&"))) and q not in chain:
                    chain.append(q)
                    work.append(q)
        if not any(self_of(f, q) == "symbol::Symbols" for q in chain):
            raise Inconclusive("the context's symbol lookup does not reach a method of Symbols")
        return chain

    a.lazy("symbol_chain", symbol_chain)
    a.lazy("ctx_constructors", ctx_constructors)
    a.lazy("ctx_new", lambda: one(a["ctx_constructors"], "context constructor"))
    a.lazy("expr_eval", lambda: one(evalsum.find_by_name(f, "evaluate", evalsum.EXPR), "Expr::evaluate"))
    a.lazy("eval_rule", lambda: one([d for d, b in f.bodies.items() if b["kind"] == "AssocFn" and self_of(f, d) == evalsum.EXPR and d != a["expr_eval"]
                                     and any(c_ in tree_callees(f, d) for c_ in a["ctx_constructors"])],
                                    "per-rule evaluation entry (Expr method building a context)"))
    a.lazy("short", lambda: ShortNames(a, f))
    _memo[key] = a
    return a
