"""What the MIR of upstream (std / dependency) functions says about them — used only for callees that the
reviewed table spec/callees.py does not name.

`direct_panickers(f)`: upstream functions called directly from crate-local code whose *own* body (depth 1, not
the transitive closure: 159 of 519 upstream callees reach the panic machinery transitively, through debug
precondition checks and capacity overflow, so the closure says nothing) calls `unwrap` / `expect` / `panic!` /
`assert!` / a slice-index failure.  An unnamed callee of that kind is treated as partial instead of being assumed
total.
"""
import re

DIRECT = re.compile(r"(core|std)::(panicking::panic(_fmt|_display|_str|_explicit)?$|panicking::panic_const|panicking::assert_failed|"
                    r"option::expect_failed|option::unwrap_failed|result::unwrap_failed|slice::index::slice_|str::slice_error_fail|"
                    r"cell::panic_already)|::(unwrap|expect|expect_err|unwrap_err)$")

_memo = {}


def direct_panickers(f):
    key = getattr(f, "path", id(f))
    if key in _memo:
        return _memo[key]
    m = f.mono
    nodes = m["nodes"]
    out = {}
    calls = {}
    for a, b, k in m["edges"]:
        if k == "call":
            calls.setdefault(a, []).append(b)
    called_from_local = set()
    for a, b, k in m["edges"]:
        if k in ("call", "fnref") and nodes[a]["local"] and not nodes[b]["local"]:
            called_from_local.add(b)
    for b in called_from_local:
        hits = sorted(set(nodes[y]["path"] for y in calls.get(b, []) if DIRECT.search(nodes[y]["path"])))
        if hits:
            out.setdefault(nodes[b]["path"], set()).update(hits)
    _memo[key] = out
    return out
