"""HZ: hazard sites (may panic / may silently lose range) of MIR bodies — shared by C01, C06, C13, C17."""
import re

import callees
from mir import callee_of
from norm import short_callee

INT_WIDTH = {"i8": 8, "i16": 16, "i32": 32, "i64": 64, "i128": 128, "isize": 64,
             "u8": 8, "u16": 16, "u32": 32, "u64": 64, "u128": 128, "usize": 64}


def int_range(t):
    if t not in INT_WIDTH:
        return None
    w = INT_WIDTH[t]
    if t.startswith("i"):
        return (-(1 << (w - 1)), (1 << (w - 1)) - 1)
    return (0, (1 << w) - 1)


def cast_lossless(ck, frm, to):
    """(lossless?, reason)"""
    if ck == "IntToInt":
        a, b = int_range(frm), int_range(to)
        if frm in ("bool", "char") and b:
            return True, "bool/char to a wider integer"
        if frm == "u8" and to == "char":
            return True, "u8 to char"
        if a and b:
            return (b[0] <= a[0] and a[1] <= b[1]), "integer range"
        if a is None and b:   # enum discriminant etc.
            return True, "discriminant read"
        return False, "unknown integer cast"
    if ck == "FloatToFloat":
        return (frm, to) in (("f32", "f64"), ("f64", "f64"), ("f32", "f32")), "float width"
    if ck == "IntToFloat":
        return True, "every integer magnitude is below f64::MAX: precision may be lost, range is not (allowed by the property)"
    if ck == "FloatToInt":
        return False, "float to integer saturates / truncates"
    return True, "pointer / other cast"


def operands_of_rvalue(rv):
    k = rv["k"]
    if k in ("use", "repeat", "cast", "wrapbinder"):
        return [rv["op"]]
    if k == "binop":
        return [rv["a"], rv["b"]]
    if k == "unop":
        return [rv["a"]]
    if k == "agg":
        return rv["ops"]
    return []


CURRENT_FACTS = None


def sites(f, body):
    """all hazard-relevant sites of one body, in block order:
       dicts {kind, detail, cls, reason, span, exp, callee?}"""
    global CURRENT_FACTS
    CURRENT_FACTS = f
    out = []
    tys = f.types
    for bi, blk in enumerate(body["blocks"]):
        if blk["cleanup"]:
            continue
        for s in blk["stmts"]:
            if s["k"] != "assign":
                continue
            rv = s["rv"]
            if rv["k"] == "binop":
                op = rv["op"]
                ot = tys[rv["opty"]]
                if ot["k"] in ("int", "uint") and op in ("Add", "Sub", "Mul", "Shl", "Shr", "AddUnchecked", "SubUnchecked", "MulUnchecked", "ShlUnchecked", "ShrUnchecked"):
                    out.append({"kind": "intop", "detail": "%s:%s" % (op, ot["s"]), "cls": "silent",
                                "reason": "unchecked integer arithmetic (wraps when overflow checks are off)", "span": s["span"], "exp": s.get("exp")})
            if rv["k"] == "cast":
                ck = rv["ck"]
                if ck in ("IntToInt", "FloatToInt", "FloatToFloat", "IntToFloat"):
                    frm, to = tys[rv["from"]]["s"], tys[rv["to"]]["s"]
                    ok, why = cast_lossless(ck, frm, to)
                    out.append({"kind": "cast", "detail": "%s:%s->%s" % (ck, frm, to), "cls": "total" if ok else "silent",
                                "reason": why, "span": s["span"], "exp": s.get("exp")})
            for o in operands_of_rvalue(rv):
                if o.get("k") == "const" and "fn" in o and "ctor" not in o["fn"]:
                    out.append(call_site(o["fn"], s["span"], s.get("exp"), "fnref"))
        t = blk["term"]
        if t["k"] == "assert":
            msg = t["msg"]
            if msg.startswith("Resumed"):
                continue
            ot = tys[t["opty"]]["s"] if "opty" in t else ""
            out.append({"kind": "assert", "detail": "%s:%s" % (msg, ot) if ot else msg, "cls": "partial",
                        "reason": "MIR assert (panics when the check fails; the same operation wraps when checks are off)",
                        "span": t["span"], "exp": t.get("exp")})
        elif t["k"] == "call":
            c = callee_of(t)
            if c is None:
                out.append({"kind": "call", "detail": "<indirect>", "cls": "unclassified", "reason": "call through a value", "span": t["span"], "exp": t.get("exp")})
            elif "ctor" not in c:
                out.append(call_site(c, t["span"], t.get("exp"), "call", diverges=t["t"] is None))
            for a in t["args"]:
                if a.get("k") == "const" and "fn" in a and "ctor" not in a["fn"]:
                    out.append(call_site(a["fn"], t["span"], t.get("exp"), "fnref"))
        elif t["k"] == "inlineasm":
            out.append({"kind": "asm", "detail": "inline asm", "cls": "partial", "reason": "inline assembly", "span": t["span"], "exp": t.get("exp")})
    # ordinals among equal (kind, detail)
    seen = {}
    for s in out:
        k = (s["kind"], s["detail"])
        s["ord"] = seen.get(k, 0)
        seen[k] = s["ord"] + 1
    return out


def call_site(c, span, exp, kind, diverges=False):
    full = c.get("resolved_full") or c["full"]
    short = short_callee(full)
    local = c.get("resolved_local", c.get("local")) and c.get("resolved_kind", "Item") == "Item"
    if local:
        cls, why = "local", "crate-local (analysed as its own body)"
    else:
        cls, why = callees.classify(full, short, c)
        tr = c.get("trait")
        if tr in ("std::convert::Into", "std::convert::TryInto") and CURRENT_FACTS is not None and len(c.get("args", [])) >= 2:
            # T::into::<U>()  is  U::from(T): classify the conversion that actually runs
            f = CURRENT_FACTS
            t_s, u_s = f.ty_s(c["args"][0]), f.ty_s(c["args"][1])
            base = "From" if tr.endswith("Into") and not tr.endswith("TryInto") else "TryFrom"
            has_local = any(i.get("trait") == "std::convert::" + base and i["self_s"] == u_s and
                            (i["trait_args"] == [t_s] or any("<" in a or a in ("V", "K", "T") for a in i["trait_args"]))
                            for i in f.impls)
            if t_s == u_s:
                cls, why = "total", "identity conversion"
            elif has_local:
                cls, why = "local", "conversion through a crate-local %s impl" % base
            else:
                from norm import last_seg
                name2 = "%s::%s<%s>" % (last_seg(u_s), "from" if base == "From" else "try_from", last_seg(t_s))
                cls, why = callees.classify("<%s as std::convert::%s<%s>>::%s" % (u_s, base, t_s, "from" if base == "From" else "try_from"), name2, None)
                short = name2
                if cls == "unclassified" and base == "From" and f.ty(c["args"][0])["k"] in ("int", "uint", "float", "bool", "char") and f.ty(c["args"][1])["k"] in ("int", "uint", "float"):
                    cls, why = "total", "std lossless primitive From"
        if diverges and cls in ("total", "unclassified"):
            cls, why = "partial", "call never returns (panic)"
    return {"kind": kind, "detail": short, "full": full, "cls": cls, "reason": why, "span": span, "exp": exp,
            "virtual": c.get("resolved_kind") == "Virtual" or (not c.get("resolved") and bool(c.get("trait")))}


def key(pid, body_def, s):
    return "%s|%s|%s:%s#%d" % (pid, body_def, s["kind"], s["detail"], s["ord"])


def successors(t, include_unwind=False):
    k = t["k"]
    out = []
    if k in ("goto", "falseunwind", "drop", "assert"):
        out.append(t["t"])
    elif k == "falseedge":
        out += [t["t"], t["imag"]]
    elif k == "switch":
        out += [b for _, b in t["targets"]] + [t["otherwise"]]
    elif k == "call":
        if t["t"] is not None:
            out.append(t["t"])
    elif k == "yield":
        out.append(t["resume"])
    return out


def back_edges(body):
    """(src, dst, terminator) of every edge that closes a cycle (DFS over non-cleanup blocks)"""
    blocks = body["blocks"]
    color = {}
    out = []
    stack = [(0, iter(successors(blocks[0]["term"])))]
    color[0] = 1
    while stack:
        n, it = stack[-1]
        adv = False
        for m in it:
            if blocks[m]["cleanup"]:
                continue
            c = color.get(m, 0)
            if c == 0:
                color[m] = 1
                stack.append((m, iter(successors(blocks[m]["term"]))))
                adv = True
                break
            if c == 1:
                out.append((n, m, blocks[n]["term"]))
        if not adv:
            color[n] = 2
            stack.pop()
    return out
