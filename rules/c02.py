"""C02 — every operator and built-in yields the result its operator table defines (structural part).

Decided: for every node kind and every operand-tag combination the result is built by the designated
primitive / library operation on the designated operands in the designated order, wrapped in the
designated variant; every undefined cell yields the designated error; a composite node passes exactly
its children's results to its operator.  NOT decided: that i128 / IEEE-754 / rust_decimal / chrono
arithmetic itself is correct."""
import json
import os
import re

import dispatch
import optable
from framework import Inconclusive, VERIF

LEVEL = "other"
LABEL = re.compile(r"'[^']*'")


def load_spec():
    with open(os.path.join(VERIF, "spec", "optable.json")) as fh:
        return json.load(fh)


def cell_outcomes(outs):
    return sorted([[list(map(list, x["conds"])), LABEL.sub("'*'", x["ret"])] for x in outs])


def split_fail(outcomes):
    """(success outcomes with 'ok' conditions dropped, failure outcomes)"""
    ok, bad = [], []
    for conds, ret in outcomes:
        if any(c[1] == "fails" for c in conds):
            bad.append((conds, ret))
        else:
            ok.append(([c for c in conds if c[1] != "ok"], ret))
    return sorted(ok), bad


def run(res, f, tier):
    t = optable.compute(f)
    if not t:
        raise Inconclusive("recursive evaluator not found from Expr::evaluate")
    spec = load_spec()
    res.floor("node kinds with an operator table", len([k for k in spec if k in t["cells_by_kind"]]), 30)
    ncells = 0
    nbad = 0
    samples = []
    for kind in sorted(spec):
        if kind not in t["cells_by_kind"]:
            res.violation("C02|dispatch|%s" % kind, "node kind %s has no operator table (its operands are not evaluated sub-expressions)" % kind)
            continue
        fns = t["op_of_kind"].get(kind, ["<inline>"])
        for combo, outs in sorted(t["cells_by_kind"][kind].items()):
            ncells += 1
            key = ",".join(combo)
            actual = cell_outcomes(outs)
            want = spec[kind]["cells"].get(key, {"outcomes": [[[], spec[kind]["default"]]]})["outcomes"]
            if actual == want:
                if len(samples) < 14 and key in spec[kind]["cells"] and "None" not in combo and ncells % 7 == 0:
                    samples.append({"node": kind, "operands": list(combo), "outcomes": [("[%s] " % "; ".join(" ".join(c) for c in cs) if cs else "") + r for cs, r in actual]})
                continue
            # a panicking primitive replaced by its checked spelling: same success result, and the new failure
            # outcomes are errors conditioned on that primitive failing (C01's business, not a table change)
            a_ok, a_bad = split_fail(actual)
            w_ok, w_bad = split_fail(want)
            if a_ok == w_ok and not w_bad and a_bad and all(r.startswith("Err(") and r != "Err(InvalidType)" for _, r in a_bad):
                continue
            nbad += 1
            res.violation("C02|cell|%s|%s" % (kind, key),
                          "%s%s: table says %s ; code does %s" % (kind, tuple(combo), fmt(want), fmt(actual)),
                          {"operator_fn": fns[0], "expected": want, "actual": actual})
    res.floor("operator table cells", ncells, 1100)
    # composition: children results flow into the operator in order, its result is returned unchanged
    mm, st = dispatch.compare_rows(t, classes=("bool",))
    wiring_bad = 0
    for m in mm:
        if m["kind"] in t["cells_by_kind"] and m["kind"] in spec:
            continue      # the wiring of an operator node is part of its table (read through the evaluator's arm)
        # only success paths (those that reach the operator / context call) are C02's; order and laziness are C05's
        miss = [x for x in m["missing"] if isinstance(x, dict) and any(e.startswith(("op", "ctx", "push", "insert")) for e in x["events"])]
        unex = [x for x in m["unexpected"] if isinstance(x, dict) and any(e.startswith(("op", "ctx", "push", "insert")) for e in x["events"])]
        miss_w = set(json.dumps([[e for e in x["events"] if e.startswith(("op", "ctx", "push", "insert"))], x["result"]]) for x in miss)
        unex_w = set(json.dumps([[e for e in x["events"] if e.startswith(("op", "ctx", "push", "insert"))], x["result"]]) for x in unex)
        if miss_w != unex_w:
            wiring_bad += 1
            res.violation("C02|compose|%s" % m["kind"],
                          "node kind %s does not pass its sub-results to its operator as specified (operand order / result)" % m["kind"],
                          {"expected": sorted(miss_w - unex_w)[:4], "actual": sorted(unex_w - miss_w)[:4]})
    # the lazy nodes have no operator function; their rows for a None or otherwise non-boolean condition / operand
    # ("a type error") are table cells all the same (C03 and C04 decide the same rows for their own clauses)
    lazy_bad = 0
    for cls, what in (("none", "None"), ("other", "non-boolean")):
        mmx, _ = dispatch.compare_rows(t, classes=(cls,), kinds=("If", "And", "Or"), tags_result_only=True)
        for m in mmx:
            lazy_bad += 1
            res.violation("C02|lazy-cell|%s|%s" % (m["kind"], cls),
                          "%s with a %s condition / operand does not yield what the table defines (a type error)" % (m["kind"], what),
                          {"missing_paths": m["missing"][:4], "unexpected_paths": m["unexpected"][:4]})
    import rewrite
    rw_cov = rewrite.apply(res, f, "C02")
    res.coverage = {
        "tree_rewrites": rw_cov,
        "explanation": "Tag-symbolic summaries of the %d operator functions reached from the evaluator were computed for every operand-tag tuple "
                       "(%d cells) and compared, after normalisation (checked-op == op, mirrored comparisons, commutative arguments, transparent "
                       "clone/ref/into), with the reviewed table spec/optable.json; the evaluator's dispatch rows give the operand wiring of all 47 node kinds."
                       % (len(t["opfns"]), ncells),
        "cells": ncells,
        "cells_differing": nbad,
        "node_kinds": len(t["rows"]),
        "wiring_mismatches": wiring_bad,
        "rule": "normalised outcome set of each cell == spec cell; operator receives children results in order and its result is returned unchanged",
        "samples": samples,
        "exhaustive": True,
    }
    res.assumptions = [
        "semantics of MIR primitives (Add, Lt, BitAnd ...) and of the named std / rust_decimal / chrono functions are as documented (numeric exactness is not analysed)",
        "spec/optable.json was frozen from the tree after the fix: commits and reviewed against the property statement; it is the reference for later changes",
    ]


def fmt(outcomes):
    return " | ".join((("[%s] " % "; ".join(" ".join(c) for c in cs)) if cs else "") + r for cs, r in outcomes)
