"""TSS: tag-symbolic path summaries of MIR bodies (abstract interpretation, no execution).

Values are immutable tuples:
  ('sym', name)                          opaque leaf with provenance
  ('adt', adt_path, variant, fields)     value with known constructor
  ('tup', fields)
  ('ref', ptr)  ptr = ('loc', frame, local, proj) | ('heap', id, proj)
  ('const', kind, v)
  ('op', name, args)                     primitive operation term
  ('call', callee, args)                 opaque call term (callee = printable resolved path)
  ('await', fut_term)                    output of an awaited opaque future
  ('closure', def, captures) / ('coroutine', def, captures)
  ('fn', key)                            function item (fn-ref stored in interp.fnrefs[key])
  ('proj', base, elem)                   projection out of an unknown value
  ('discr', ptr_or_none, value)          transient: discriminant read
  ('iter', src, n)                       n-th element drawn from iterator src
  ('uninit',)
A path = (conds, events, return value).  conds are (term, variant) / (term, 'val', x) refinements
made at forks; events are calls in program order.
"""
import sys

sys.setrecursionlimit(100000)

UNINIT = ("uninit",)


class Unsupported(Exception):
    pass


class PathLimit(Exception):
    pass


def sym(name):
    return ("sym", name)


def is_unknown(v):
    return v[0] in ("sym", "proj", "call", "await", "op", "iter")


class State:
    __slots__ = ("frames", "heap", "conds", "events", "known", "loopcount", "nheap", "flags")

    def __init__(self):
        self.frames = {}
        self.heap = {}
        self.conds = []
        self.events = []
        self.known = {}
        self.loopcount = {}
        self.nheap = 0
        self.flags = set()

    def fork(self):
        s = State()
        s.frames = {k: dict(v) for k, v in self.frames.items()}
        s.heap = dict(self.heap)
        s.conds = list(self.conds)
        s.events = list(self.events)
        s.known = dict(self.known)
        s.loopcount = dict(self.loopcount)
        s.nheap = self.nheap
        s.flags = set(self.flags)
        return s

    def alloc(self, v):
        self.nheap += 1
        self.heap[self.nheap] = v
        return ("heap", self.nheap, ())


def short(path):
    return path


def short_name(full):
    """path without generic arguments"""
    import re as _re
    prev = None
    while prev != full:
        prev = full
        full = _re.sub(r"::<[^<>]*>", "", full)
    return full


class Interp:
    def __init__(self, facts, opaque=None, max_depth=6, loop_bound=2, max_paths=4000, models=None, record_local_calls=True):
        self.f = facts
        self.opaque = opaque or (lambda path: False)
        # optional hook (interp, state, path, args) -> bool: inline this call even if the callee is opaque or already
        # on the stack (used to evaluate a concrete expression tree level by level: recursion ends with the tree)
        self.force_inline = None
        # opt-in: `x == LITERAL` through a compiler-derived PartialEq, LITERAL a closed constant tree, is decided by
        # refining x level by level (structural equality is what the derive generates)
        self.model_literal_eq = False
        # optional hook (interp, state, future term) -> value or None: the output of awaiting an opaque future
        # (used to give a sub-expression's evaluation a concrete, tagged result)
        self.await_hook = None
        self.max_depth = max_depth
        self.loop_bound = loop_bound
        self.max_paths = max_paths
        self.fnrefs = {}
        self.frame_counter = 0
        self.npaths = 0
        self.record_local_calls = record_local_calls
        self.notes = []
        self.extra_models = models or {}
        self.inline_derived = False
        self.call_sites = {}
        self.auto_opaque = set()
        self.closure_tsub = {}
        # recursive passes over expression trees called from the code under analysis are kept opaque (switched off where
        # the pass itself is what is analysed: the constant folder of C14)
        self.walkers_opaque = True
        # opt-in: positions handed out by `enumerate` are the constants 0, 1, 2 ... (decides `if position > 0`)
        self.count_enumerate = False
        self.tsub = {}   # generic parameter name -> concrete type string, for the body being interpreted

    # ------------------------------------------------------------------ values / memory
    def load_ptr(self, st, ptr):
        if ptr[0] == "loc":
            base = st.frames[ptr[1]].get(ptr[2], UNINIT)
        else:
            base = st.heap[ptr[1]]
        return self.project(st, base, ptr[-1])

    def store_ptr(self, st, ptr, val):
        if ptr[0] == "loc":
            fr = st.frames[ptr[1]]
            fr[ptr[2]] = self.update(st, fr.get(ptr[2], UNINIT), ptr[3], val)
        else:
            st.heap[ptr[1]] = self.update(st, st.heap[ptr[1]], ptr[2], val)

    def project(self, st, v, proj):
        for e in proj:
            v = self.project1(st, v, e)
        return v

    def project1(self, st, v, e):
        k = e[0]
        if k == "deref":
            if v[0] == "ref":
                return self.load_ptr(st, v[1])
            if v[0] == "box":
                return v[1]
            if v[0] == "proj" and v[2] == ("addr",):
                return v[1]
            return ("proj", v, ("deref",))
        if k == "field":
            i = e[1]
            if v[0] in ("tup",):
                return v[1][i] if i < len(v[1]) else ("proj", v, ("field", i))
            if v[0] == "adt":
                return v[3][i] if i < len(v[3]) else ("proj", v, ("field", i))
            if v[0] in ("closure", "coroutine"):
                return v[2][i] if i < len(v[2]) else ("proj", v, ("field", i))
            if v[0] == "proj" and v[2][0] == "variant":
                return ("proj", v[1], ("vf", v[2][1], i))
            if v[0] == "uninit":
                return UNINIT
            if v[0] == "op" and v[1] == "with_field":
                base, j, val = v[2]
                if j[2] == i:
                    return val
                return self.project1(st, base, e)
            return ("proj", v, ("field", i))
        if k == "downcast":
            if v[0] == "adt":
                return v  # variant already known (MIR guarantees the switch happened)
            return ("proj", v, ("variant", e[1]))
        if k == "index":
            return ("proj", v, ("index", "?"))
        if k in ("constidx", "subslice", "opaquecast", "unwrapbinder"):
            return ("proj", v, tuple(e))
        raise Unsupported("projection %r" % (e,))

    def update(self, st, base, proj, val):
        if not proj:
            return val
        e = proj[0]
        k = e[0]
        if k == "deref":
            if base[0] == "ref":
                self.store_ptr(st, self.ptr_extend(base[1], proj[1:]), val)
                return base
            if base[0] == "box":
                return ("box", self.update(st, base[1], proj[1:], val))
            # write through an unknown pointer: remember as effect
            st.events.append(("write_unknown", base, proj[1:], val))
            return base
        if k == "field":
            i = e[1]
            if base[0] == "tup":
                fs = list(base[1])
                while len(fs) <= i:
                    fs.append(UNINIT)
                fs[i] = self.update(st, fs[i], proj[1:], val)
                return ("tup", tuple(fs))
            if base[0] == "adt":
                fs = list(base[3])
                while len(fs) <= i:
                    fs.append(UNINIT)
                fs[i] = self.update(st, fs[i], proj[1:], val)
                return ("adt", base[1], base[2], tuple(fs))
            if base[0] in ("closure", "coroutine"):
                fs = list(base[2])
                while len(fs) <= i:
                    fs.append(UNINIT)
                fs[i] = self.update(st, fs[i], proj[1:], val)
                return (base[0], base[1], tuple(fs))
            # unknown struct: functional update term
            inner = self.update(st, ("proj", base, ("field", i)), proj[1:], val)
            return ("op", "with_field", (base, ("const", "int", i), inner))
        if k == "downcast":
            return self.update(st, base, proj[1:], val)
        st.events.append(("write_unknown", base, proj, val))
        return base

    @staticmethod
    def ptr_extend(ptr, proj):
        if not proj:
            return ptr
        if ptr[0] == "loc":
            return ("loc", ptr[1], ptr[2], ptr[3] + tuple(proj))
        return ("heap", ptr[1], ptr[2] + tuple(proj))

    def place_ptr(self, st, frame, place):
        """pointer for a MIR place; derefs of known refs are resolved so the pointer is canonical"""
        ptr = ("loc", frame, place["l"], ())
        for e in place["p"]:
            e = tuple(e)
            if e[0] == "deref":
                v = self.load_ptr(st, ptr)
                if v[0] == "ref":
                    ptr = v[1]
                    continue
            if e[0] == "field":
                e = ("field", e[1])
            elif e[0] == "downcast":
                e = ("downcast", e[1])
            ptr = self.ptr_extend(ptr, (e,))
        return ptr

    def read_place(self, st, frame, place):
        return self.load_ptr(st, self.place_ptr(st, frame, place))

    def operand(self, st, frame, op):
        k = op["k"]
        if k in ("copy", "move"):
            return self.read_place(st, frame, op["place"])
        if k == "const":
            if op.get("uargs") and "unevaluated" in op and "tree" not in op:
                # an associated constant used in generic code (`<U as TimeUnit>::FIELD`), in a body that is being interpreted
                # for a concrete U: the impl's own constant is evaluated (its initialiser is an ordinary body)
                self_s = self.subst(self.f.ty_s(op["uargs"][0]))
                tr_, _, nm_ = op["unevaluated"].rpartition("::")
                key_ = (tr_, self_s, nm_)
                memo_ = self.__dict__.setdefault("_assoc_consts", {})
                if key_ not in memo_:
                    memo_[key_] = [b_ for b_ in self.f.raw["bodies"] if b_.get("name") == nm_ and str(b_.get("kind", "")).startswith("AssocConst")
                                   and (b_.get("impl") or {}).get("trait") == tr_ and (b_.get("impl") or {}).get("self_s") == self_s]
                if not memo_[key_] and op["unevaluated"] in self.f.bodies and str(self.f.bodies[op["unevaluated"]].get("kind", "")).startswith("AssocConst"):
                    memo_[key_] = [self.f.bodies[op["unevaluated"]]]       # the trait's own default value
                if len(memo_[key_]) == 1:
                    cb_ = memo_[key_][0]
                    fid_ = self.new_frame(st)
                    saved_ = self.tsub
                    self.tsub = {}
                    try:
                        outs_ = self.run_body(cb_, st, fid_, 1)
                    finally:
                        self.tsub = saved_
                    if len(outs_) == 1:
                        return outs_[0][1]
            if "tree_ref" in op:
                # a reference to a constant / immutable static whose contents are known: a live reference to a cell holding them
                return ("ref", st.alloc(self.const_tree(op["tree_ref"])))
            return self.const(op)
        return ("const", "other", k)

    def const(self, op):
        if self.tsub and op.get("d") in self.tsub and str(self.tsub[op["d"]]).lstrip("-").isdigit():
            # a const generic parameter of the body being interpreted for a concrete instance (`RadixInt<16>`)
            return ("const", "int", int(self.tsub[op["d"]]))
        if "fn" in op:
            key = op["fn"].get("resolved_full") or op["fn"]["full"]
            self.fnrefs[key] = op["fn"]
            return ("fn", key)
        if "int" in op:
            return ("const", "int", int(op["int"]))
        if "bool" in op:
            return ("const", "bool", bool(op["bool"]))
        if "char" in op:
            return ("const", "char", op["char"])
        if "data" in op:
            d = op["data"]
            if "str" in d and self.f.ty(op["ty"])["s"].endswith("str"):
                return ("const", "str", d["str"])
            return ("const", "bytes", bytes(d["bytes"]))
        if op.get("zst"):
            return ("const", "zst", self.f.ty_s(op["ty"]))
        if "tree" in op:
            return self.const_tree(op["tree"])
        if "tree_ref" in op:
            return ("rref", self.const_tree(op["tree_ref"]))
        if "unevaluated" in op:
            return ("const", "item", op["unevaluated"])
        return ("const", "other", op["d"])

    def const_tree(self, t):
        if "fnref" in t:
            fr = t["fnref"]
            if fr.get("trait") in ("std::ops::Fn", "std::ops::FnMut", "std::ops::FnOnce") and fr.get("self_ty") is not None:
                # a capture-free closure coerced to a function pointer
                sty = self.f.ty(fr["self_ty"])
                if sty.get("k") == "closure" and sty.get("def") in self.f.bodies:
                    return ("closure", sty["def"], ())
            key = t["fnref"].get("resolved_full") or t["fnref"]["full"]
            self.fnrefs[key] = t["fnref"]
            return ("fn", key)
        if "data" in t and "str" in t["data"]:
            return ("const", "str", t["data"]["str"])
        if "adt" in t:
            return ("adt", t["adt"], t["variant"], tuple(self.const_tree(x) for x in t["fields"]))
        if "array" in t:
            return ("op", "array", tuple(self.const_tree(x) for x in t["array"]))
        if "tuple" in t:
            return ("tup", tuple(self.const_tree(x) for x in t["tuple"]))
        if "bool" in t:
            return ("const", "bool", bool(t["bool"]))
        if "int" in t:
            return ("const", "int", int(t["int"]))
        if "char" in t:
            return ("const", "char", t["char"])
        return ("const", "other", str(t))

    @staticmethod
    def is_closed_literal(v):
        if v[0] == "const":
            return v[1] in ("bool", "int", "char")
        if v[0] == "adt":
            return all(Interp.is_closed_literal(x) for x in v[3])
        return False

    def literal_eq(self, st, x, lit):
        """-> [(state, bool)]: structural comparison of an arbitrary value with a closed literal"""
        while x[0] == "ref":
            x = self.load_ptr(st, x[1])
        if lit[0] == "const":
            if x[0] == "const":
                return [(st, x[1] == lit[1] and x[2] == lit[2])]
            want = int(lit[2]) if lit[1] in ("bool", "int") else lit[2]
            if x in st.known:
                return [(st, st.known[x] == want)]
            s1 = st.fork()
            s1.conds.append((self.resolve(s1, x), "val", want))
            s1.known[x] = want
            s2 = st.fork()
            s2.conds.append((self.resolve(s2, x), "val", "not:%s" % want))
            s2.known[x] = "other"
            return [(s1, True), (s2, False)]
        adt, var = lit[1], lit[2]
        if x[0] == "adt":
            if x[2] != var:
                return [(st, False)]
            fields = x[3]
            states = [(st, True)]
        elif x in st.known and isinstance(st.known[x], str):
            if st.known[x] != var:
                return [(st, False)]
            fields = tuple(("proj", x, ("vf", var, i)) for i in range(len(lit[3])))
            states = [(st, True)]
        else:
            s1 = st.fork()
            s1.conds.append((self.resolve(s1, x), "is", var))
            s1.known[x] = var
            s2 = st.fork()
            s2.conds.append((self.resolve(s2, x), "isnot", var))
            fields = tuple(("proj", x, ("vf", var, i)) for i in range(len(lit[3])))
            states = [(s1, True), (s2, False)]
        out = []
        for s_, ok in states:
            if not ok:
                out.append((s_, False))
                continue
            cur = [(s_, True)]
            for fx, fl in zip(fields, lit[3]):
                nxt = []
                for s3, ok3 in cur:
                    if not ok3:
                        nxt.append((s3, False))
                    else:
                        nxt += self.literal_eq(s3, fx, fl)
                cur = nxt
            out += cur
        return out

    # ------------------------------------------------------------------ deep resolution (for reporting)
    def resolve(self, st, v, depth=0):
        if depth > 40:
            return ("sym", "<deep>")
        k = v[0]
        if k == "ref":
            return ("rref", self.resolve(st, self.load_ptr(st, v[1]), depth + 1))
        if k == "rref":
            return v
        if k == "adt":
            return ("adt", v[1], v[2], tuple(self.resolve(st, x, depth + 1) for x in v[3]))
        if k == "tup":
            return ("tup", tuple(self.resolve(st, x, depth + 1) for x in v[1]))
        if k in ("op", "call"):
            return (k, v[1], tuple(self.resolve(st, x, depth + 1) for x in v[2]))
        if k in ("closure", "coroutine"):
            return (k, v[1], tuple(self.resolve(st, x, depth + 1) for x in v[2]))
        if k == "proj":
            return ("proj", self.resolve(st, v[1], depth + 1), v[2])
        if k in ("await", "box"):
            return (k, self.resolve(st, v[1], depth + 1))
        if k == "discr":
            return ("discr", self.resolve(st, v[2], depth + 1))
        return v

    # ------------------------------------------------------------------ running
    def new_frame(self, st):
        self.frame_counter += 1
        fid = self.frame_counter
        st.frames[fid] = {}
        return fid

    def run(self, path, args, st=None, depth=0):
        """interpret body `path` with argument values; returns list of (state, return value)"""
        body = self.f.bodies[path]
        st = st or State()
        # a callee in which the enumeration of paths explodes (a pass over an expression tree, a big classifier called in
        # a loop) is retried as an opaque call: what it computes is then a term, not a case split
        base = st
        for attempt in range(4):
            st = base.fork() if attempt or True else base
            fid = self.new_frame(st)
            for i, a in enumerate(args):
                st.frames[fid][i + 1] = a
            n0 = self.npaths
            try:
                return self.run_body(body, st, fid, depth)
            except PathLimit as e:
                culprit = str(e.args[0]) if e.args else ""
                while culprit in self.f.bodies and self.f.bodies[culprit].get("parent"):
                    culprit = self.f.bodies[culprit]["parent"]
                if not culprit or culprit == path or culprit in self.auto_opaque or culprit not in self.f.bodies:
                    raise
                self.auto_opaque.add(culprit)
                self.notes.append("path limit in %s: kept opaque" % culprit)
                self.npaths = n0
        raise PathLimit(path)

    def run_body(self, body, st, fid, depth, stack=()):
        out = []
        work = [(st, 0)]
        blocks = body["blocks"]
        stack = stack + (body["def"],)
        while work:
            st, bb = work.pop()
            while True:
                blk = blocks[bb]
                for s in blk["stmts"]:
                    if s["k"] == "assign":
                        v = self.rvalue(st, fid, s["rv"], body)
                        self.store_ptr(st, self.place_ptr(st, fid, s["place"]), v)
                t = blk["term"]
                k = t["k"]
                if k in ("goto", "falseedge", "falseunwind", "drop"):
                    nb = t["t"]
                    if nb <= bb:  # back edge
                        key = (fid, bb, nb)
                        c = st.loopcount.get(key, 0) + 1
                        st.loopcount[key] = c
                        if c > self.loop_bound + 1:
                            st.flags.add("loop_bound_hit")
                            break
                    bb = nb
                    continue
                if k == "return":
                    out.append((st, st.frames[fid].get(0, UNINIT)))
                    self.npaths += 1
                    if self.npaths > self.max_paths:
                        raise PathLimit(body["def"])
                    break
                if k == "unreachable":
                    break
                if k in ("resume", "terminate", "coroutine_drop"):
                    break
                if k == "assert":
                    cond = self.operand(st, fid, t["cond"])
                    st.events.append(("assert", t["msg"], body["def"]))
                    bb = t["t"]
                    continue
                if k == "yield":
                    st.flags.add("yield_reached")
                    break
                if k == "switch":
                    succ = self.switch(st, fid, t, body)
                    if not succ:
                        break
                    for s2, b2 in succ[1:]:
                        work.append((s2, b2))
                    st, bb = succ[0]
                    continue
                if k == "call":
                    results = self.call(st, fid, t, body, depth, stack)
                    if t["t"] is None:
                        # diverging call (panic etc.)
                        for s2, _ in results:
                            s2.flags.add("diverges")
                            out.append((s2, ("diverge", self.last_callee)))
                        break
                    if not results:
                        break
                    dest = t["dest"]
                    for idx, (s2, rv) in enumerate(results):
                        self.store_ptr(s2, self.place_ptr(s2, fid, dest), rv)
                    for s2, _ in results[1:]:
                        work.append((s2, t["t"]))
                    st = results[0][0]
                    bb = t["t"]
                    continue
                raise Unsupported("terminator %s in %s" % (k, body["def"]))
        return out

    # ------------------------------------------------------------------ rvalues
    def rvalue(self, st, fid, rv, body):
        k = rv["k"]
        if k == "use":
            return self.operand(st, fid, rv["op"])
        if k == "copyforderef":
            return self.read_place(st, fid, rv["place"])
        if k == "ref" or k == "rawptr":
            place = rv["place"]
            # reborrow  &*x  of a known reference gives that reference
            if place["p"] and place["p"][-1][0] == "deref":
                pre = dict(place, p=place["p"][:-1])
                v = self.read_place(st, fid, pre)
                if v[0] == "ref":
                    return v
                if v[0] == "box":
                    return ("ref", st.alloc(v[1])) if False else ("ref", self.ptr_extend(self.place_ptr(st, fid, pre), (("deref",),)))
                # reference to the pointee of an unknown pointer: the pointer itself
                return v
            return ("ref", self.place_ptr(st, fid, place))
        if k == "discr":
            ptr = self.place_ptr(st, fid, rv["place"])
            return ("discr", ptr, self.load_ptr(st, ptr), self.place_adt(st, fid, rv["place"], body))
        if k == "binop":
            a = self.operand(st, fid, rv["a"])
            b = self.operand(st, fid, rv["b"])
            op = rv["op"]
            if a[0] == "const" and b[0] == "const" and a[1] == b[1] and a[1] in ("int", "bool", "char"):
                x, y = a[2], b[2]
                r = {"Eq": x == y, "Ne": x != y, "Lt": x < y, "Le": x <= y, "Gt": x > y, "Ge": x >= y}.get(op)
                if r is not None:
                    return ("const", "bool", r)
            return ("op", op, (a, b))
        if k == "unop":
            a = self.operand(st, fid, rv["a"])
            if rv["op"] == "Not" and a[0] == "const" and a[1] == "bool":
                return ("const", "bool", not a[2])
            return ("op", rv["op"], (a,))
        if k == "cast":
            a = self.operand(st, fid, rv["op"])
            ck = rv["ck"]
            if ck.startswith("PointerCoercion") or ck in ("Transmute", "PtrToPtr", "Subtype"):
                if "ReifyFnPointer" in ck or "ClosureFnPointer" in ck or "Unsize" in ck or "MutToConstPointer" in ck or ck in ("PtrToPtr", "Subtype"):
                    if "Unsize" in ck and "dyn " in self.f.ty_s(rv["to"]) and "dyn " not in self.f.ty_s(rv["from"]) and a[0] in ("ref", "box", "rref"):
                        # a value put behind a trait object: remember what it is, so that a later call through the trait
                        # object can be resolved to that type's own impl
                        import re as _re
                        src_ = _re.sub(r"^&(?:'\w+ )?(?:mut )?", "", self.subst(self.f.ty_s(rv["from"])))
                        src_ = _re.sub(r"^std::boxed::Box<(.*)>$", r"\1", src_)
                        st.known[("dyn", a)] = src_
                    return a
                return ("op", "cast:" + ck, (a,))
            return ("op", "cast:%s:%s->%s" % (ck, self.f.ty_s(rv["from"]), self.f.ty_s(rv["to"])), (a,))
        if k == "agg":
            ops = tuple(self.operand(st, fid, o) for o in rv["ops"])
            ak = rv["ak"]
            if ak == "tuple":
                return ("tup", ops)
            if ak == "adt":
                return ("adt", rv["adt"], rv["variant"], ops)
            if ak in ("closure", "coroutine", "coroutine_closure"):
                if self.tsub:
                    # a closure written inside a generic function sees that function's type parameters
                    self.closure_tsub[rv["def"]] = dict(self.tsub)
                return (ak if ak != "coroutine_closure" else "closure", rv["def"], ops)
            if ak == "array":
                return ("op", "array", ops)
            return ("op", "agg:" + ak, ops)
        if k == "repeat":
            # `[x; N]`: the evaluated length is part of the operator's name when the driver knows it
            return ("op", "repeat" + (rv.get("len") or ""), (self.operand(st, fid, rv["op"]),))
        if k == "threadlocalref":
            return ("sym", "threadlocal:" + rv["def"])
        raise Unsupported("rvalue " + k)

    def place_adt(self, st, fid, place, body):
        """ADT path of the type of a MIR place (for discriminant reads)"""
        ty = body["locals"][place["l"]]["ty"]
        for e in place["p"]:
            if e[0] == "deref":
                t = self.f.ty(ty)
                if t["k"] in ("ref", "ptr"):
                    ty = t["inner"]
                elif t.get("box"):
                    ty = t["args"][0]
                else:
                    return None
            elif e[0] == "field":
                ty = e[2]
            elif e[0] == "downcast":
                pass
            else:
                return None
        return self.f.adt_of(ty)

    # ------------------------------------------------------------------ switch
    def switch(self, st, fid, t, body):
        v = self.operand(st, fid, t["op"])
        targets = [(int(a), b) for a, b in t["targets"]]
        otherwise = t["otherwise"]
        if v[0] == "discr":
            _, ptr, cur, adt = v
            # chase: the place may have been refined since the discriminant was read
            cur = self.load_ptr(st, ptr)
            if cur[0] == "adt":
                adt = cur[1]
                var = self.variant(adt, cur[2])
                d = int(var["discr"]) if var and "discr" in var else None
                for a, b in targets:
                    if a == d:
                        return [(st, b)]
                return [(st, otherwise)]
            if cur in st.known and adt:
                name = st.known[cur]
                var = self.variant(adt, name)
                self.refine(st, ptr, cur, adt, var, record=False)
                d = int(var["discr"])
                for a, b in targets:
                    if a == d:
                        return [(st, b)]
                return [(st, otherwise)]
            if not adt or adt not in self.f.adts:
                raise Unsupported("switch on discriminant of unknown ADT %r" % (adt,))
            out = []
            seen = set()
            variants = self.f.adts[adt]["variants"]
            excl = st.known.get(("excl", cur), frozenset())
            for a, b in targets:
                var = next((x for x in variants if int(x["discr"]) == a), None)
                if var is None:
                    continue
                seen.add(var["name"])
                if var["name"] in excl:
                    continue        # ruled out by an earlier catch-all arm on the same value
                s2 = st.fork()
                self.refine(s2, ptr, cur, adt, var)
                out.append((s2, b))
            if not self.block_unreachable(body, otherwise):
                rest = [var for var in variants if var["name"] not in seen and var["name"] not in excl]
                if len(rest) > 12:
                    # a catch-all arm over a large enum (`matches!(e, Expr::Value(..))` on a node with 47 kinds): one
                    # path "none of the tested kinds" instead of one per remaining kind
                    s2 = st.fork()
                    s2.conds.append((self.resolve(s2, cur), "is_not", ",".join(sorted(seen | excl))))
                    s2.known[("excl", cur)] = frozenset(seen | excl)
                    out.append((s2, otherwise))
                else:
                    for var in rest:
                        s2 = st.fork()
                        self.refine(s2, ptr, cur, adt, var)
                        out.append((s2, otherwise))
            return out
        if v[0] == "const":
            x = v[2]
            if v[1] == "bool":
                x = 1 if x else 0
            for a, b in targets:
                if a == x:
                    return [(st, b)]
            return [(st, otherwise)]
        # unknown scalar: fork with value conditions
        key = v
        if key in st.known:
            x = st.known[key]
            for a, b in targets:
                if a == x:
                    return [(st, b)]
            return [(st, otherwise)]
        out = []
        for a, b in targets:
            s2 = st.fork()
            s2.conds.append((self.resolve(s2, v), "val", a))
            s2.known[key] = a
            out.append((s2, b))
        if not self.block_unreachable(body, otherwise):
            s2 = st.fork()
            s2.conds.append((self.resolve(s2, v), "val", "not:" + ",".join(str(a) for a, _ in targets)))
            s2.known[key] = "other"
            out.append((s2, otherwise))
        return out

    @staticmethod
    def block_unreachable(body, bb):
        blk = body["blocks"][bb]
        return blk["term"]["k"] == "unreachable"

    def variant(self, adt, name):
        a = self.f.adts.get(adt)
        if not a:
            return None
        for v in a["variants"]:
            if v["name"] == name:
                return v
        return None

    def refine(self, st, ptr, cur, adt, var, record=True):
        fields = tuple(("proj", cur, ("vf", var["name"], i)) for i in range(len(var["fields"])))
        new = ("adt", adt, var["name"], fields)
        self.store_ptr(st, ptr, new)
        if record:
            st.conds.append((self.resolve(st, cur), "is", var["name"]))
            st.known[cur] = var["name"]

    # ------------------------------------------------------------------ calls
    def callee(self, st, fid, t):
        f = t["func"]
        if f.get("k") == "const" and "fn" in f:
            return f["fn"], None
        if "callee" in t:
            return t["callee"], None
        v = self.operand(st, fid, f)
        return None, v

    def call(self, st, fid, t, body, depth, stack):
        self.cur_def = body["def"]
        fn, fval = self.callee(st, fid, t)
        args = [self.operand(st, fid, a) for a in t["args"]]
        if fn is None:
            # call through a value (fn pointer / closure value)
            self.last_callee = "<indirect>"
            return self.apply(st, fval, args, depth, stack)
        return self.call_fn(st, fn, args, depth, stack)

    def call_fn(self, st, fn, args, depth, stack):
        name = fn.get("resolved_full") or fn["full"]
        path = fn.get("resolved") or fn["path"]
        self.last_callee = name
        # constructor functions
        if "ctor" in fn:
            return [(st, ("adt", fn["ctor"]["adt"], fn["ctor"]["variant"], tuple(args)))]
        if self.tsub and fn.get("trait") and not fn.get("resolved_local") and fn.get("self_ty") is not None:
            # a trait method called on a generic parameter (`T::unwrap_from(v)` inside `fn extract<T: Payload>`), in a body
            # that is being interpreted for a concrete T: the crate-local impl for that type is what runs
            raw_self = self.f.ty_s(fn["self_ty"])
            self_s = self.subst(raw_self)
            if self_s != raw_self:
                targs = [self.subst(self.f.ty_s(t_)) for t_ in (fn.get("args") or [])[1:]]
                def unify(pattern, concrete):
                    """{param: argument} when `concrete` is an instance of the impl's self type `pattern` (`RadixInt<RADIX>`
                    against `RadixInt<16>`); None otherwise"""
                    if pattern == concrete:
                        return {}
                    if "<" not in pattern or pattern.split("<")[0] != concrete.split("<")[0]:
                        return None
                    def top(x):
                        inner, out_, depth_, cur = x[x.index("<") + 1:x.rindex(">")], [], 0, ""
                        for ch in inner:
                            if ch in "<(":
                                depth_ += 1
                            elif ch in ">)":
                                depth_ -= 1
                            if ch == "," and depth_ == 0:
                                out_.append(cur.strip())
                                cur = ""
                            else:
                                cur += ch
                        if cur.strip():
                            out_.append(cur.strip())
                        return out_
                    pa, ca = top(pattern), top(concrete)
                    if len(pa) != len(ca):
                        return None
                    m_ = {}
                    for x_, y_ in zip(pa, ca):
                        if x_ == y_:
                            continue
                        import re as _re
                        if _re.fullmatch(r"[A-Z][A-Za-z0-9_]*", x_):
                            m_[x_] = y_
                        else:
                            return None
                    return m_
                cands = []
                for d_, b_ in self.f.bodies.items():
                    im_ = b_.get("impl") or {}
                    if b_.get("name") == fn["name"] and not b_.get("parent") and im_.get("trait") == fn["trait"] \
                            and list(im_.get("trait_args") or []) == targs[:len(im_.get("trait_args") or [])]:
                        u_ = unify(im_.get("self_s", ""), self_s)
                        if u_ is not None:
                            cands.append((d_, u_))
                impl_path, extra_tsub = cands[0] if len(cands) == 1 else (None, None)
                if impl_path:
                    # the method's own type parameters (`apply::<i128>`) keep their arguments; `Self` is now the impl's type
                    gp_ = list(fn.get("gparams") or [])
                    ta_ = list(fn.get("args") or [])
                    keep_ = [(g_, t_) for g_, t_ in zip(gp_, ta_) if g_ != "Self"] if len(gp_) == len(ta_) else []
                    n_trait = len((self.f.bodies[impl_path].get("impl") or {}).get("trait_args") or [])
                    keep_ = keep_[n_trait:]
                    fn = dict(fn, resolved=impl_path, resolved_full=impl_path, resolved_local=True, resolved_kind="Item",
                              gparams=[g_ for g_, _ in keep_], resolved_args=[t_ for _, t_ in keep_], args=[t_ for _, t_ in keep_],
                              extra_tsub=extra_tsub)
                    name, path = impl_path, impl_path
                    self.last_callee = name
        if fn.get("resolved_kind") == "Virtual" and args and fn.get("trait") and ("dyn", args[0]) in st.known:
            # a call through a trait object whose concrete type is known on this path (`let c: &dyn Container = map;`)
            self_s = st.known[("dyn", args[0])]
            cands = [d_ for d_, b_ in self.f.bodies.items() if b_.get("name") == fn["name"] and not b_.get("parent")
                     and (b_.get("impl") or {}).get("trait") == fn["trait"] and (b_.get("impl") or {}).get("self_s") == self_s]
            if len(cands) == 1:
                fn = dict(fn, resolved=cands[0], resolved_full=cands[0], resolved_local=True, resolved_kind="Item", gparams=[], resolved_args=[])
                name, path = cands[0], cands[0]
                self.last_callee = name
        m = self.model(st, fn, name, path, args, depth, stack)
        if m is not None:
            return m
        local = fn.get("resolved_local", fn.get("local")) and path in self.f.bodies
        if fn.get("resolved_kind") == "Virtual":
            local = False   # dynamic dispatch: the trait's default body is not what runs
        if local and not self.inline_derived and (self.f.bodies[path].get("impl") or {}).get("derived") \
                and (self.f.bodies[path].get("impl") or {}).get("trait") != "std::default::Default":
            # compiler-derived trait impls (Clone, PartialEq, Debug ...) are kept as opaque calls
            local = False
        forced = local and self.force_inline is not None and self.force_inline(self, st, path, args)
        if local and not forced and (path in self.auto_opaque or (self.walkers_opaque and self.tree_walker(path))):
            # a recursive pass over an expression tree called from the code under analysis (collect names, substitute
            # symbols ...): its effect is not what is being summarised, and unrolling it explodes
            local = False
        if local and (forced or (not self.opaque(path) and path not in stack)) and depth < self.max_depth:
            if self.record_local_calls:
                st.events.append(("call_local", path, tuple(self.resolve(st, a) for a in args)))
            fid = self.new_frame(st)
            for i, a in enumerate(args):
                st.frames[fid][i + 1] = a
            saved = self.tsub
            gp = fn.get("gparams") or []
            ta = fn.get("resolved_args") or fn.get("args") or []
            if gp and len(gp) == len(ta):
                self.tsub = {g: self.subst(self.f.ty_s(t)) for g, t in zip(gp, ta)}
            else:
                self.tsub = {}
            if fn.get("extra_tsub"):
                self.tsub = dict(self.tsub, **fn["extra_tsub"])
            try:
                res = self.run_body(self.f.bodies[path], st, fid, depth + 1, stack)
            finally:
                self.tsub = saved
            return res
        return self.opaque_call(st, fn, name, args)

    def tree_walker(self, path):
        """a crate-local function that takes an expression (by value or reference) and is recursive"""
        memo = self.__dict__.setdefault("_walkers", {})
        if path not in memo:
            b = self.f.bodies.get(path)
            ok = False
            if b and not b.get("parent") and not b.get("coroutine_kind") and \
                    any("expr::Expr" in self.f.ty_s(b["locals"][i]["ty"]) for i in range(1, b["arg_count"] + 1)):
                import evalsum
                seen, todo = set(), list(evalsum.local_callees(self.f, b))
                for cl in self.f.closures_of(path):
                    todo += list(evalsum.local_callees(self.f, cl))
                while todo and not ok:
                    q = todo.pop()
                    if q == path:
                        ok = True
                        break
                    if q in seen or q not in self.f.bodies:
                        continue
                    seen.add(q)
                    if len(seen) > 60:
                        break
                    todo += list(evalsum.local_callees(self.f, self.f.bodies[q]))
            # async functions are evaluation proper (handled by the await machinery), not passes over the tree
            if ok and any(x.get("parent") == path and x.get("coroutine_kind") for x in self.f.raw["bodies"]):
                ok = False
            memo[path] = ok
        return memo[path]

    def subst(self, ty_s):
        """apply the current generic-parameter substitution to a type string (whole-string or bracketed occurrences)"""
        if not self.tsub:
            return ty_s
        if ty_s in self.tsub:
            return self.tsub[ty_s]
        out = ty_s
        for g, c in self.tsub.items():
            if len(g) <= 2 or g.startswith("impl "):
                import re as _re
                out = _re.sub(r"(?<![A-Za-z0-9_:])%s(?![A-Za-z0-9_:])" % _re.escape(g), c.replace("\\", "\\\\"), out)
        return out

    def opaque_call(self, st, fn, name, args):
        if self.tsub:
            name = self.subst(name)
        # where (in which body) each opaque callee was called from: lets a panic site be attributed to what was interpreted
        self.call_sites.setdefault(name, set()).add(getattr(self, "cur_def", None))
        rargs = tuple(self.resolve(st, a) for a in args)
        term = ("call", name, rargs)
        # distinguish repeated identical calls by occurrence index
        n = sum(1 for e in st.events if e[0] == "call" and e[1] == name and e[2] == rargs)
        if n:
            term = ("call", name, rargs, n)
        st.events.append(("call", name, rargs))
        return [(st, term)]

    def apply(self, st, f, args, depth, stack):
        """call a function value"""
        if f[0] == "ref":
            f = self.load_ptr(st, f[1])
        if f[0] == "fn":
            return self.call_fn(st, self.fnrefs[f[1]], args, depth, stack)
        if f[0] == "closure":
            path = f[1]
            if path in self.f.bodies and depth < self.max_depth + 2:
                b = self.f.bodies[path]
                fid = self.new_frame(st)
                selfty = self.f.ty(b["locals"][1]["ty"])
                if selfty["k"] == "ref":
                    st.frames[fid][1] = ("ref", st.alloc(f))
                else:
                    st.frames[fid][1] = f
                for i, a in enumerate(args):
                    st.frames[fid][i + 2] = a
                saved = self.tsub
                if path in self.closure_tsub:
                    self.tsub = dict(self.closure_tsub[path])
                try:
                    return self.run_body(b, st, fid, depth + 1, stack)
                finally:
                    self.tsub = saved
        term = ("call", "<apply>", (self.resolve(st, f),) + tuple(self.resolve(st, a) for a in args))
        st.events.append(("call", "<apply>", term[2]))
        return [(st, term)]

    # fork helper on an Option/Result-like value: returns [(state, variant, payload)]
    def cases(self, st, v, adt):
        # `opt.is_none()` takes `&self`: the case split is on the value behind the reference
        for _ in range(4):
            if v[0] == "ref":
                v = self.load_ptr(st, v[1])
            elif v[0] == "rref":
                v = v[1]
            else:
                break
        if v[0] == "adt":
            return [(st, v[2], v[3])]
        if v in st.known:
            var = self.variant(adt, st.known[v])
            return [(st, var["name"], tuple(("proj", v, ("vf", var["name"], i)) for i in range(len(var["fields"]))))]
        out = []
        for var in self.f.adts[adt]["variants"]:
            s2 = st.fork()
            s2.conds.append((self.resolve(s2, v), "is", var["name"]))
            s2.known[v] = var["name"]
            out.append((s2, var["name"], tuple(("proj", v, ("vf", var["name"], i)) for i in range(len(var["fields"])))))
        return out

    OPTION = "std::option::Option"
    RESULT = "std::result::Result"
    CF = "std::ops::ControlFlow"
    POLL = "std::task::Poll"

    def mk(self, adt, variant, *fields):
        return ("adt", adt, variant, tuple(fields))

    def deref(self, st, v):
        return self.project1(st, v, ("deref",))

    def model(self, st, fn, name, path, args, depth, stack):
        """definitions of a fixed handful of core combinators; None = not modelled"""
        p = fn["path"]
        nm = fn["name"]
        tr = fn.get("trait")
        if p in self.extra_models:
            return self.extra_models[p](self, st, fn, args, depth, stack)
        O, R, CF = self.OPTION, self.RESULT, self.CF
        if tr in ("std::ops::Fn", "std::ops::FnMut", "std::ops::FnOnce") and nm in ("call", "call_mut", "call_once") and len(args) == 2:
            # calling a function value (also through `dyn Fn`): devirtualise when the callee is a known closure / fn item
            fv = args[0]
            while fv[0] == "ref":
                fv = self.load_ptr(st, fv[1])
            while fv[0] == "box":
                fv = fv[1]
            if fv[0] in ("closure", "fn") and args[1][0] == "tup":
                return self.apply(st, fv, list(args[1][1]), depth, stack)
        if tr == "std::iter::Iterator" and nm == "find" and len(args) == 2 and not fn.get("resolved_local") and \
                self.known_elems(st, self.deref(st, args[0]) if args[0][0] == "ref" else args[0]) is not None:
            # a search through a constant table: the elements in order, the first one the predicate accepts
            out = []
            work = [st]
            rounds = 0
            while work and rounds < 200:
                rounds += 1
                s_ = work.pop()
                for s2, nxt in self.iter_next(s_, args[0], depth, stack):
                    if nxt[2] == "None":
                        out.append((s2, nxt))
                        continue
                    elem = nxt[3][0]
                    for s3, r in self.apply(s2, args[1], [("ref", s2.alloc(elem))], depth + 1, stack):
                        for s4, yes in self.branch_bool(s3, r):
                            if yes:
                                out.append((s4, self.mk(O, "Some", elem)))
                            else:
                                work.append(s4)
            return out
        if tr == "std::iter::Iterator" and nm == "find_map" and len(args) == 2 and not fn.get("resolved_local") and \
                self.known_elems(st, self.deref(st, args[0]) if args[0][0] == "ref" else args[0]) is not None:
            # a search through a constant table with a mapping predicate: the first element it maps to Some
            out = []
            work = [st]
            rounds = 0
            while work and rounds < 200:
                rounds += 1
                s_ = work.pop()
                for s2, nxt in self.iter_next(s_, args[0], depth, stack):
                    if nxt[2] == "None":
                        out.append((s2, nxt))
                        continue
                    for s3, r in self.apply(s2, args[1], [nxt[3][0]], depth + 1, stack):
                        for s4, var, pl in self.cases(s3, r, O):
                            if var == "Some":
                                out.append((s4, self.mk(O, "Some", pl[0])))
                            else:
                                work.append(s4)
            return out
        if p in ("core::bool::<impl bool>::then_some", "std::bool::<impl bool>::then_some", "core::bool::<impl bool>::then", "std::bool::<impl bool>::then") and len(args) == 2:
            out = []
            for s2, yes in self.branch_bool(st, args[0]):
                if not yes:
                    out.append((s2, self.mk(O, "None")))
                elif nm == "then_some":
                    out.append((s2, self.mk(O, "Some", args[1])))
                else:
                    for s3, r in self.apply(s2, args[1], [], depth + 1, stack):
                        out.append((s3, self.mk(O, "Some", r)))
            return out
        if tr == "std::iter::Iterator" and nm == "filter" and len(args) == 2 and not fn.get("resolved_local"):
            # an adaptor whose predicate is provably always true is the identity
            probe = st.fork()
            n_ev = len(probe.events)
            try:
                outs = self.apply(probe, args[1], [("ref", probe.alloc(("sym", "filter_item")))], depth + 1, stack)
            except (Unsupported, PathLimit):
                outs = []
            if outs and all(v == ("const", "bool", True) and not [e for e in s2.events[n_ev:] if e[0] == "call"] for s2, v in outs):
                return [(st, args[0])]
        if self.model_literal_eq and tr == "std::cmp::PartialEq" and nm in ("eq", "ne") and len(args) == 2 and \
                (self.f.bodies.get(fn.get("resolved") or "", {}).get("impl") or {}).get("derived"):
            a, b = self.deref(st, args[0]), self.deref(st, args[1])
            lit, other = (b, a) if self.is_closed_literal(b) and b[0] == "adt" else ((a, b) if self.is_closed_literal(a) and a[0] == "adt" else (None, None))
            if lit is not None and not self.is_closed_literal(other):
                return [(s_, ("const", "bool", ok if nm == "eq" else not ok)) for s_, ok in self.literal_eq(st, other, lit)]
        if tr == "std::default::Default" and nm == "default" and not args and not fn.get("resolved_local"):
            # the default of the std types the crate's data is made of
            sty = self.subst(self.f.ty_s(fn["args"][0])) if fn.get("args") else ""
            if sty.startswith("std::option::Option<"):
                return [(st, self.mk(O, "None"))]
            if sty.startswith("std::collections::BTreeMap<"):
                return [(st, ("call", "std::collections::BTreeMap::<K, V>::new", ()))]
            if sty.startswith("std::vec::Vec<"):
                return [(st, ("call", "std::vec::Vec::<T>::new", ()))]
            if sty == "bool":
                return [(st, ("const", "bool", False))]
        if tr == "std::clone::Clone" and nm == "clone":
            return [(st, self.deref(st, args[0]))]
        if tr == "std::borrow::ToOwned" and nm == "to_owned":
            return [(st, ("op", "to_owned", (self.deref(st, args[0]),)))]
        if tr == "std::ops::Deref" and nm == "deref" or tr == "std::ops::DerefMut" and nm == "deref_mut":
            inner = self.deref(st, args[0])
            # String -> str, Vec -> slice, Box<T> -> T : keep the same abstract value behind a reference
            return [(st, ("ref", st.alloc(inner)))] if args[0][0] != "ref" else [(st, args[0])]
        if tr == "std::convert::Into" and nm == "into":
            return self.convert(st, fn, args[0], self.subst(self.f.ty_s(fn["args"][0])), self.subst(self.f.ty_s(fn["args"][1])), depth, stack)
        if tr == "std::convert::TryInto" and nm == "try_into":
            r = self.convert(st, fn, args[0], self.subst(self.f.ty_s(fn["args"][0])), self.subst(self.f.ty_s(fn["args"][1])), depth, stack, trait="std::convert::TryFrom", method="try_from")
            return r
        if tr == "std::convert::From" and nm == "from" and not fn.get("resolved_local"):
            src = self.f.ty_s(fn["args"][1]) if len(fn["args"]) > 1 else None
            dst = self.f.ty_s(fn["args"][0])
            if src == dst:
                return [(st, args[0])]
            # `BTreeMap::from([(k1, v1), ...])` is the empty map with the pairs inserted in order (std: later duplicates win)
            if dst.startswith("std::collections::BTreeMap<") and len(args) == 1:
                arr = args[0]
                while arr[0] == "ref":
                    arr = self.load_ptr(st, arr[1])
                if arr[0] == "op" and arr[1] == "array" and all(x[0] == "tup" and len(x[1]) == 2 for x in arr[2]):
                    cur = ("call", "std::collections::BTreeMap::<K, V>::new", ())
                    for x in arr[2]:
                        cur = ("op", "insert", (cur, x[1][0], x[1][1]))
                    return [(st, cur)]
            return None
        if tr == "std::future::IntoFuture" and nm == "into_future":
            return [(st, args[0])]
        if p == "std::pin::Pin::<Ptr>::new_unchecked" or p == "std::pin::Pin::<Ptr>::new" or (nm in ("new_unchecked",) and "Pin" in p):
            return [(st, args[0])]
        if p == "std::future::get_context":
            return [(st, ("sym", "task_context"))]
        if nm == "pin" and "Box" in p:
            return [(st, ("box", args[0]))]
        if nm == "new" and p.startswith("std::boxed::Box"):
            return [(st, ("box", args[0]))]
        if nm == "new_uninit" and p.startswith("std::boxed::Box"):
            return [(st, ("box", ("sym", "uninit")))]
        if nm == "box_assume_init_into_vec_unsafe":
            # vec![a, b, ..] lowering: the array written into the fresh box becomes the vector
            def find_array(v, depth=0):
                if depth > 12 or not isinstance(v, tuple):
                    return None
                if v and v[0] == "op" and v[1] == "array":
                    return v
                for x in v[1:]:
                    if isinstance(x, tuple):
                        r = find_array(x, depth + 1) if x and isinstance(x[0], str) else None
                        if r is None and x and not isinstance(x[0], str):
                            for y in x:
                                r = find_array(y, depth + 1) if isinstance(y, tuple) else None
                                if r:
                                    break
                        if r:
                            return r
                return None
            arr = find_array(self.resolve(st, args[0]))
            if arr is not None:
                return [(st, ("op", "vec_of", arr[2]))]
        if tr == "std::future::Future" and nm == "poll":
            fut = args[0]
            while fut[0] == "ref":
                fut = self.load_ptr(st, fut[1])
            while fut[0] == "box":
                fut = fut[1]
            if fut[0] == "coroutine" and fut[1] in self.f.bodies and (
                    (not self.opaque(fut[1]) and fut[1] not in stack)
                    or (self.force_inline is not None and self.force_inline(self, st, fut[1], list(fut[2])))):
                b = self.f.bodies[fut[1]]
                fid = self.new_frame(st)
                st.frames[fid][1] = fut
                st.frames[fid][2] = ("sym", "task_context")
                saved_ts = self.tsub
                if fut[1] in self.closure_tsub:
                    self.tsub = dict(self.closure_tsub[fut[1]])     # the body of a generic async fn sees its type parameters
                try:
                    res = self.run_body(b, st, fid, depth + 1, stack)
                finally:
                    self.tsub = saved_ts
                return [(s2, self.mk(self.POLL, "Ready", rv)) for s2, rv in res]
            if self.await_hook is not None:
                hv = self.await_hook(self, st, self.resolve(st, fut))
                if hv is not None:
                    return [(st, self.mk(self.POLL, "Ready", hv))]
            return [(st, self.mk(self.POLL, "Ready", ("await", self.resolve(st, fut))))]
        if tr == "std::ops::Try" and nm == "branch":
            v = args[0]
            sty = self.f.ty(fn["args"][0])
            adt = sty.get("adt")
            out = []
            if adt == R:
                for s2, var, pl in self.cases(st, v, R):
                    if var == "Ok":
                        out.append((s2, self.mk(CF, "Continue", pl[0])))
                    else:
                        out.append((s2, self.mk(CF, "Break", self.mk(R, "Err", pl[0]))))
                return out
            if adt == O:
                for s2, var, pl in self.cases(st, v, O):
                    if var == "Some":
                        out.append((s2, self.mk(CF, "Continue", pl[0])))
                    else:
                        out.append((s2, self.mk(CF, "Break", self.mk(O, "None"))))
                return out
            return None
        if tr == "std::ops::FromResidual" and nm == "from_residual":
            v = args[0]
            dst = self.f.ty(fn["args"][0])
            src = self.f.ty(fn["args"][1])
            if dst.get("adt") == R and v[0] == "adt" and v[2] == "Err":
                e = v[3][0]
                et_dst = self.f.ty_s(dst["args"][1])
                et_src = self.f.ty_s(src["args"][1])
                if et_dst == et_src:
                    return [(st, self.mk(R, "Err", e))]
                res = self.convert(st, fn, e, et_src, et_dst, depth, stack)
                return [(s2, self.mk(R, "Err", x)) for s2, x in res]
            if dst.get("adt") == O:
                return [(st, self.mk(O, "None"))]
            return None
        # Option / Result combinators
        if p.startswith("std::option::Option::<") and nm in ("get_or_insert_with", "get_or_insert") and len(args) == 2 and args[0][0] == "ref":
            # `opt.get_or_insert_with(f)`: if opt is None it becomes Some(f()); a reference to the content is returned
            out = []
            cur = self.load_ptr(st, args[0][1])
            for s2, var, pl in self.cases(st, cur, O):
                if var == "Some":
                    out.append((s2, ("ref", s2.alloc(pl[0]))))
                else:
                    vals = self.apply(s2, args[1], [], depth + 1, stack) if nm == "get_or_insert_with" else [(s2, args[1])]
                    for s3, val in vals:
                        self.store_ptr(s3, args[0][1], self.mk(O, "Some", val))
                        out.append((s3, ("ref", s3.alloc(val))))
            return out
        if p.startswith("std::collections::btree_map::Entry::<") and nm in ("or_insert_with", "or_insert", "or_default") and args and args[0][0] == "call" \
                and short_name(args[0][1]).endswith("BTreeMap::entry") and getattr(self, "entry_places", {}).get(args[0]) is not None:
            # `map.entry(k).or_insert_with(f)`: if !map.contains_key(k) { map.insert(k, f()) }
            mptr, key = self.entry_places[args[0]]
            rm = self.resolve(st, self.load_ptr(st, mptr))
            test = ("call", "std::collections::BTreeMap::<K, V, A>::contains_key", (rm, self.resolve(st, key)))
            out = []
            hits = self.map_lookup(st, rm, key)
            if hits is not None:
                # the map's history is known: present / absent is decided (or forks on key equality)
                news = []
                for s2, hv in hits:
                    if hv is not None:
                        out.append((s2, ("ref", s2.alloc(hv))))
                    else:
                        news.append(s2)
            else:
                s_has = st.fork()
                s_has.conds.append((test, "val", "not:0"))
                out.append((s_has, ("sym", "entry_value")))
                s_new = st.fork()
                s_new.conds.append((test, "val", 0))
                news = [s_new]
            for s_new in news:
              if True:
                if nm == "or_insert_with":
                    vals = self.apply(s_new, args[1], [], depth + 1, stack)
                elif nm == "or_insert":
                    vals = [(s_new, args[1])]
                else:
                    vals = [(s_new, ("call", "Default::default", ()))]
                for s3, val in vals:
                    old = self.load_ptr(s3, mptr)
                    s3.events.append(("call", "std::collections::BTreeMap::<K, V, A>::insert", (self.resolve(s3, old), self.resolve(s3, key), self.resolve(s3, val))))
                    self.store_ptr(s3, mptr, ("op", "insert", (old, key, val)))
                    out.append((s3, ("ref", s3.alloc(val))))
            return out
        if p.startswith("std::collections::BTreeMap::<") and nm == "entry" and len(args) == 2 and args[0][0] == "ref":
            # remember which map place an entry belongs to (used when the entry is consumed by or_insert_with)
            rargs = tuple(self.resolve(st, a) for a in args)
            term = ("call", name if not self.tsub else self.subst(name), rargs)
            st.events.append(("call", term[1], rargs))
            if not hasattr(self, "entry_places"):
                self.entry_places = {}
            self.entry_places[term] = (args[0][1], args[1])
            return [(st, term)]
        if p.startswith("std::option::Option::<"):
            v = args[0]
            if nm in ("or", "or_else", "xor", "zip") and nm in ("or", "or_else") and len(args) == 2:
                out = []
                for s2, var, pl in self.cases(st, v, O):
                    if var == "Some":
                        out.append((s2, self.mk(O, "Some", pl[0])))
                    elif nm == "or":
                        out.append((s2, args[1]))
                    else:
                        out.extend(self.apply(s2, args[1], [], depth, stack))
                return out
            if nm in ("map", "ok_or", "ok_or_else", "unwrap_or", "cloned", "copied", "and_then", "unwrap_or_else", "is_some", "is_none", "map_or", "unwrap_or_default", "take", "as_ref", "as_deref", "filter"):
                if nm == "take":
                    # Option::take(&mut opt): returns the old value, leaves None
                    old = self.deref(st, v)
                    if v[0] == "ref":
                        self.store_ptr(st, v[1], self.mk(O, "None"))
                    return [(st, old)]
                if nm in ("as_ref", "as_deref"):
                    v = self.deref(st, v) if v[0] == "ref" else v
                    out = []
                    for s2, var, pl in self.cases(st, v, O):
                        out.append((s2, self.mk(O, "Some", pl[0]) if var == "Some" else self.mk(O, "None")))
                    return out
                if nm in ("filter", "map_or", "unwrap_or_default"):
                    return None
                out = []
                for s2, var, pl in self.cases(st, v, O):
                    some = var == "Some"
                    if nm == "map":
                        if some:
                            for s3, r in self.apply(s2, args[1], [pl[0]], depth, stack):
                                out.append((s3, self.mk(O, "Some", r)))
                        else:
                            out.append((s2, self.mk(O, "None")))
                    elif nm == "and_then":
                        if some:
                            out.extend(self.apply(s2, args[1], [pl[0]], depth, stack))
                        else:
                            out.append((s2, self.mk(O, "None")))
                    elif nm == "ok_or":
                        out.append((s2, self.mk(R, "Ok", pl[0]) if some else self.mk(R, "Err", args[1])))
                    elif nm == "ok_or_else":
                        if some:
                            out.append((s2, self.mk(R, "Ok", pl[0])))
                        else:
                            for s3, r in self.apply(s2, args[1], [], depth, stack):
                                out.append((s3, self.mk(R, "Err", r)))
                    elif nm == "unwrap_or":
                        out.append((s2, pl[0] if some else args[1]))
                    elif nm == "unwrap_or_else":
                        if some:
                            out.append((s2, pl[0]))
                        else:
                            out.extend(self.apply(s2, args[1], [], depth, stack))
                    elif nm in ("cloned", "copied"):
                        out.append((s2, self.mk(O, "Some", self.deref(s2, pl[0])) if some else self.mk(O, "None")))
                    elif nm == "is_some":
                        out.append((s2, ("const", "bool", some)))
                    elif nm == "is_none":
                        out.append((s2, ("const", "bool", not some)))
                return out
        if p.startswith("std::result::Result::<"):
            v = args[0]
            if nm in ("map", "map_err", "ok", "and_then", "cloned", "copied", "is_ok", "is_err", "or_else", "unwrap_or"):
                out = []
                for s2, var, pl in self.cases(st, v, R):
                    ok = var == "Ok"
                    if nm == "map":
                        if ok:
                            for s3, r in self.apply(s2, args[1], [pl[0]], depth, stack):
                                out.append((s3, self.mk(R, "Ok", r)))
                        else:
                            out.append((s2, self.mk(R, "Err", pl[0])))
                    elif nm == "map_err":
                        if ok:
                            out.append((s2, self.mk(R, "Ok", pl[0])))
                        else:
                            for s3, r in self.apply(s2, args[1], [pl[0]], depth, stack):
                                out.append((s3, self.mk(R, "Err", r)))
                    elif nm == "and_then":
                        if ok:
                            out.extend(self.apply(s2, args[1], [pl[0]], depth, stack))
                        else:
                            out.append((s2, self.mk(R, "Err", pl[0])))
                    elif nm == "or_else":
                        if ok:
                            out.append((s2, self.mk(R, "Ok", pl[0])))
                        else:
                            out.extend(self.apply(s2, args[1], [pl[0]], depth, stack))
                    elif nm == "ok":
                        out.append((s2, self.mk(O, "Some", pl[0]) if ok else self.mk(O, "None")))
                    elif nm in ("cloned", "copied"):
                        out.append((s2, self.mk(R, "Ok", self.deref(s2, pl[0])) if ok else self.mk(R, "Err", pl[0])))
                    elif nm == "is_ok":
                        out.append((s2, ("const", "bool", ok)))
                    elif nm == "is_err":
                        out.append((s2, ("const", "bool", not ok)))
                    elif nm == "unwrap_or":
                        out.append((s2, pl[0] if ok else args[1]))
                return out
        if p.startswith("std::collections::BTreeMap::<") and nm in ("contains_key", "get") and len(args) == 2:
            mv = self.deref(st, args[0]) if args[0][0] == "ref" else args[0]
            hits = self.map_lookup(st, self.resolve(st, mv), args[1])
            if hits is not None:
                if nm == "contains_key":
                    return [(s2, ("const", "bool", hv is not None)) for s2, hv in hits]
                return [(s2, self.mk(O, "Some", ("ref", s2.alloc(hv))) if hv is not None else self.mk(O, "None")) for s2, hv in hits]
        # growing a collection through a known &mut place: keep the collection's history as a term
        if (p.startswith("std::vec::Vec::<") and nm == "push" and len(args) == 2) or \
           (p.startswith("std::collections::BTreeMap::<") and nm == "insert" and len(args) == 3):
            if args[0][0] == "ref":
                old = self.load_ptr(st, args[0][1])
                rargs = tuple(self.resolve(st, a) for a in args)
                st.events.append(("call", name, rargs))
                new = ("op", nm, (old,) + tuple(args[1:]))
                self.store_ptr(st, args[0][1], new)
                if nm == "push":
                    return [(st, ("tup", ()))]
                return [(st, ("call", name + "->old", rargs))]
        # iteration (bounded unrolling): into_iter / iter -> ('itersrc', x); next -> fork
        if tr == "std::iter::IntoIterator" and nm == "into_iter" and (fn.get("resolved") or "") == "<I as std::iter::IntoIterator>::into_iter":
            return [(st, args[0])]      # the blanket impl for iterators: `for x in iterator` iterates that iterator
        if (tr == "std::iter::IntoIterator" and nm == "into_iter") or (nm in ("iter", "iter_mut", "into_iter", "chars", "lines", "enumerate") and not fn.get("resolved_local") and False):
            return [(st, ("op", "into_iter", (self.resolve(st, args[0]),)))]
        if tr == "std::iter::Iterator" and nm == "next" and not fn.get("resolved_local"):
            return self.iter_next(st, args[0])
        if tr == "std::iter::Iterator" and nm == "try_fold" and len(args) == 3 and not fn.get("resolved_local"):
            # `it.try_fold(init, f)` is the loop `let mut acc = init; for x in it { acc = f(acc, x)? } Ok(acc)`
            # (same iterator protocol and bound as a for loop, so both spellings give the same summary)
            rty = self.f.ty(fn["args"][-1]) if fn.get("args") else None
            radt = (rty or {}).get("adt")
            if radt in (R, O):
                return self.try_fold(st, args[0], args[1], args[2], radt, depth, stack)
        if tr == "std::iter::Iterator" and nm == "reduce" and len(args) == 2 and not fn.get("resolved_local"):
            # `it.reduce(f)`: None for an empty iterator, otherwise the first item folded with the rest (bounded)
            out = []
            for s2, nxt in self.iter_next(st, args[0]):
                if nxt[2] == "None":
                    out.append((s2, self.mk(O, "None")))
                    continue
                work = [(s2, nxt[3][0])]
                while work:
                    s3, acc = work.pop()
                    for s4, n2 in self.iter_next(s3, args[0]):
                        if n2[2] == "None":
                            out.append((s4, self.mk(O, "Some", acc)))
                        else:
                            for s5, r in self.apply(s4, args[1], [acc, n2[3][0]], depth + 1, stack):
                                work.append((s5, r))
            return out
        if tr == "std::iter::Iterator" and nm == "try_for_each" and len(args) == 2 and not fn.get("resolved_local"):
            # `it.try_for_each(f)` is `for x in it { f(x)? } Ok(())`
            rty = self.f.ty(fn["args"][-1]) if fn.get("args") else None
            radt = (rty or {}).get("adt")
            if radt in (R, O):
                return self.try_fold(st, args[0], ("tup", ()), args[1], radt, depth, stack, unit=True)
        return None

    def map_lookup(self, st, m, key):
        """lookup in a map whose whole history is known (`BTreeMap::new()` followed by inserts):
        -> [(state, value or None)], or None when the map is not of that form.  Keys that cannot be compared
        syntactically fork on a `key_eq` condition."""
        from norm import norm as _norm, show as _show, short_callee as _sc
        if m[0] == "call" and not m[2] and _sc(m[1]).endswith(("BTreeMap::new", "BTreeMap::default")):
            return [(st, None)]
        if m[0] == "op" and m[1] == "insert" and len(m[2]) == 3:
            base, k, v = m[2]
            a, b = _show(_norm(self.resolve(st, k))), _show(_norm(self.resolve(st, key)))
            if a == b:
                return [(st, v)]
            lit = lambda x: len(x) >= 2 and x[0] == "'" and x[-1] == "'"
            if lit(a) and lit(b):
                return self.map_lookup(st, base, key)
            rest = self.map_lookup(st, base, key)
            if rest is None:
                return None
            subj = ("op", "key_eq", tuple(sorted((self.resolve(st, k), self.resolve(st, key)), key=repr)))
            if subj in st.known:
                return [(st, v)] if st.known[subj] != 0 else rest
            s1 = st.fork()
            s1.conds.append((subj, "val", "not:0"))
            s1.known[subj] = "other"
            out = [(s1, v)]
            s2 = st.fork()
            s2.conds.append((subj, "val", 0))
            s2.known[subj] = 0
            r2 = self.map_lookup(s2, base, key)
            return out + r2
        return None

    def branch_bool(self, st, v):
        """-> [(state, truth)] of a boolean value (forks with a value condition when it is not decided)"""
        if v[0] == "const":
            return [(st, bool(v[2]))]
        if v in st.known:
            return [(st, st.known[v] != 0)]
        s1 = st.fork()
        s1.conds.append((self.resolve(s1, v), "val", "not:0"))
        s1.known[v] = "other"
        s2 = st.fork()
        s2.conds.append((self.resolve(s2, v), "val", 0))
        s2.known[v] = 0
        return [(s1, True), (s2, False)]

    def known_elems(self, st, it):
        """(elements, by_reference) when `it` iterates over an array whose elements are known (a constant table)"""
        from norm import short_callee as _sc
        byref = False
        if it[0] == "call" and len(it[2]) == 1 and _sc(it[1]).endswith("::iter") and not it[1].startswith("<"):
            src, byref = it[2][0], True
        elif it[0] == "op" and it[1] == "into_iter" and len(it[2]) == 1:
            src = it[2][0]
        else:
            return None
        for _ in range(6):
            if src[0] == "ref":
                src, byref = self.load_ptr(st, src[1]), True
            elif src[0] == "rref":
                src, byref = src[1], True
            else:
                break
        if src[0] == "op" and src[1] == "array":
            return list(src[2]), byref
        return None

    def iter_next(self, st, itp, depth=0, stack=()):
        O = self.OPTION
        # an iterator written in the crate (a struct with its own `impl Iterator`): its `next` is what runs
        if itp[0] == "ref":
            cur_ = self.load_ptr(st, itp[1])
            if cur_[0] == "adt" and self.f.adts.get(cur_[1], {}).get("local"):
                memo_ = self.__dict__.setdefault("_local_iters", {})
                if cur_[1] not in memo_:
                    memo_[cur_[1]] = [d_ for d_, b_ in self.f.bodies.items() if b_.get("name") == "next" and not b_.get("parent")
                                      and (b_.get("impl") or {}).get("trait") == "std::iter::Iterator"
                                      and (b_.get("impl") or {}).get("self_s", "").split("<")[0] == cur_[1]]
                if len(memo_[cur_[1]]) == 1 and memo_[cur_[1]][0] not in stack and depth < self.max_depth + 2:
                    p_ = memo_[cur_[1]][0]
                    fnd_ = {"path": p_, "full": p_, "name": "next", "local": True, "resolved": p_, "resolved_local": True, "args": []}
                    return self.call_fn(st, fnd_, [itp], depth, stack)
        it = self.deref(st, itp) if itp[0] == "ref" else itp
        # `into_iter` of something that already is an iterator adaptor is that adaptor
        while it[0] == "op" and it[1] == "into_iter" and it[2] and it[2][0][0] == "call" and \
                __import__("norm").short_callee(it[2][0][1]).split("::")[-1] in ("map", "copied", "cloned", "enumerate", "rev", "chain", "filter", "filter_map"):
            it = it[2][0]
        # a lazy adaptor draws from the iterator underneath: next(map(X, f)) = next(X).map(f); copied / cloned = identity
        from norm import short_callee as _sc
        sc_ = _sc(it[1]) if it[0] == "call" else ""
        if self.count_enumerate and it[0] == "call" and len(it[2]) == 1 and sc_.split("::")[-1] == "enumerate":
            # `enumerate` pairs each item with its position: the position of the k-th draw is k
            out = []
            rkey = self.resolve(st, it)
            for s2, nxt in self.iter_next(st, it[2][0], depth, stack):
                if nxt[2] == "None":
                    out.append((s2, nxt))
                    continue
                k_ = sum(1 for ev in s2.events if ev[0] == "enum_next" and ev[1] == rkey)
                s2.events.append(("enum_next", rkey))
                out.append((s2, self.mk(O, "Some", ("tup", (("const", "int", k_), nxt[3][0])))))
            return out
        if it[0] == "call" and len(it[2]) in (1, 2) and sc_.split("::")[-1] in ("map", "copied", "cloned") \
                and not sc_.startswith(("Option::", "Result::")):
            meth = sc_.split("::")[-1]
            if (meth == "map" and len(it[2]) == 2 and it[2][1][0] in ("fn", "closure")) or (meth in ("copied", "cloned") and len(it[2]) == 1):
                out = []
                for s2, nxt in self.iter_next(st, it[2][0], depth, stack):
                    if nxt[2] == "None" or meth != "map":
                        out.append((s2, nxt))
                    else:
                        for s3, r in self.apply(s2, it[2][1], [nxt[3][0]], depth + 1, stack):
                            out.append((s3, self.mk(O, "Some", r)))
                return out
        rit = self.resolve(st, it)
        ke = self.known_elems(st, it)
        if ke is not None:
            # a constant table: every element is known, nothing to fork on
            elems, byref = ke
            n = sum(1 for e in st.events if e[0] == "iter_const" and e[1] == rit)
            if n < len(elems):
                st.events.append(("iter_const", rit, n))
                return [(st, self.mk(O, "Some", ("ref", st.alloc(elems[n])) if byref else elems[n]))]
            return [(st, self.mk(O, "None"))]
        n = sum(1 for e in st.events if e[0] == "iter_next" and e[1] == rit)
        out = []
        if n < self.loop_bound:
            s2 = st.fork()
            s2.events.append(("iter_next", rit, n))
            elem = ("iter", rit, n)
            s2.conds.append((("call", "next", (rit,), n), "is", "Some"))
            out.append((s2, self.mk(O, "Some", elem)))
        else:
            st.flags.add("loop_bound_hit")
        s3 = st.fork() if out else st
        s3.conds.append((("call", "next", (rit,), n), "is", "None"))
        s3.events.append(("iter_end", rit, n))
        out.append((s3, self.mk(O, "None")))
        return out

    def try_fold(self, st, itp, acc, f, radt, depth, stack, rounds=0, unit=False):
        O, R = self.OPTION, self.RESULT
        out = []
        for s2, nxt in self.iter_next(st, itp):
            if nxt[2] == "None":
                out.append((s2, self.mk(R, "Ok", acc) if radt == R else self.mk(O, "Some", acc)))
                continue
            for s3, r in self.apply(s2, f, ([nxt[3][0]] if unit else [acc, nxt[3][0]]), depth + 1, stack):
                for s4, var, pl in self.cases(s3, r, radt):
                    if var in ("Ok", "Some"):
                        out += self.try_fold(s4, itp, pl[0], f, radt, depth, stack, rounds + 1, unit)
                    elif radt == R:
                        out.append((s4, self.mk(R, "Err", pl[0])))
                    else:
                        out.append((s4, self.mk(O, "None")))
        return out

    def convert(self, st, fn, v, src, dst, depth, stack, trait="std::convert::From", method="from"):
        """T -> U through a local `impl From<T> for U` (or TryFrom), else an opaque conversion term"""
        if src == dst and method == "from":
            return [(st, v)]
        for b in self.f.raw["bodies"]:
            im = b.get("impl")
            if im and im.get("trait") == trait and b["name"] == method and im["self_s"] == dst and im["trait_args"] == [src]:
                if b["def"] in stack or depth >= self.max_depth + 2:
                    break
                if self.record_local_calls:
                    st.events.append(("call_local", b["def"], (self.resolve(st, v),)))
                fid = self.new_frame(st)
                st.frames[fid][1] = v
                return self.run_body(b, st, fid, depth + 1, stack)
        term = ("call", "<%s as %s<%s>>::%s" % (dst, trait.split("::")[-1], src, method), (self.resolve(st, v),))
        st.events.append(("call", term[1], term[2]))
        return [(st, term)]


# ---------------------------------------------------------------------- pretty printing of values

def vs(v, depth=0):
    if depth > 12:
        return "…"
    k = v[0]
    if k == "sym":
        return v[1]
    if k == "adt":
        name = v[1].split("::")[-1] + "::" + v[2]
        if v[3]:
            return "%s(%s)" % (name, ", ".join(vs(x, depth + 1) for x in v[3]))
        return name
    if k == "tup":
        return "(%s)" % ", ".join(vs(x, depth + 1) for x in v[1])
    if k == "ref":
        return "&<%s>" % (v[1],)
    if k == "rref":
        return "&" + vs(v[1], depth + 1)
    if k == "const":
        return repr(v[2]) if v[1] != "zst" else "<%s>" % v[2]
    if k == "op":
        return "%s(%s)" % (v[1], ", ".join(vs(x, depth + 1) for x in v[2]))
    if k == "call":
        return "%s(%s)%s" % (v[1], ", ".join(vs(x, depth + 1) for x in v[2]), "#%d" % v[3] if len(v) > 3 else "")
    if k == "await":
        return "await(%s)" % vs(v[1], depth + 1)
    if k == "box":
        return "box(%s)" % vs(v[1], depth + 1)
    if k in ("closure", "coroutine"):
        return "%s %s[%s]" % (k, v[1], ", ".join(vs(x, depth + 1) for x in v[2]))
    if k == "fn":
        return "fn " + v[1]
    if k == "proj":
        e = v[2]
        if e[0] == "vf":
            return "%s.%s.%d" % (vs(v[1], depth + 1), e[1], e[2])
        if e[0] == "field":
            return "%s.%d" % (vs(v[1], depth + 1), e[1])
        if e[0] == "deref":
            return "*%s" % vs(v[1], depth + 1)
        return "%s.<%s>" % (vs(v[1], depth + 1), ",".join(str(x) for x in e))
    if k == "iter":
        return "elem%d(%s)" % (v[2], vs(v[1], depth + 1))
    if k == "discr":
        return "discr(%s)" % vs(v[-1] if len(v) == 2 else v[2], depth + 1)
    if k == "diverge":
        return "DIVERGE(%s)" % v[1]
    return str(v)


def cond_s(c):
    if c[1] == "is":
        return "%s is %s" % (vs(c[0]), c[2])
    return "%s == %s" % (vs(c[0]), c[2])
