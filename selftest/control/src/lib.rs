//! Positive controls: one instance of each construct the zero-expected rules look for.
//! This crate is analysed by the same driver and the same rule code on every run; if a control is not
//! reported, the corresponding rule is blind and the check ends INCONCLUSIVE.  Never executed.
use std::cell::Cell;
use std::collections::HashMap;
use std::sync::Mutex;

pub static COUNTER: Mutex<u64> = Mutex::new(0); // control: static with interior mutability
pub static mut RAW: u32 = 0; // control: static mut
thread_local! { pub static TL: Cell<u32> = Cell::new(0); } // control: thread-local

pub struct Holder {
    pub plain: u32,
    pub cell: Cell<u32>, // control: interior-mutable field
    pub ptr: *const u8,  // control: raw pointer field
}

pub fn unwrap_site(x: Option<u32>) -> u32 {
    x.unwrap() // control: partial callee
}

pub fn narrowing(x: i128) -> u8 {
    x as u8 // control: lossy cast
}

pub fn float_to_int(x: f64) -> i64 {
    x as i64 // control: saturating cast
}

pub fn widening(x: u32) -> i128 {
    x as i128 // control: lossless cast (must NOT be reported)
}

pub fn overflow(a: i32, b: i32) -> i32 {
    a + b // control: Assert Overflow(Add)
}

pub fn indexing(v: &[u8], i: usize) -> u8 {
    v[i] // control: bounds check
}

pub fn slicing(s: &str) -> &str {
    &s[1..] // control: str slicing
}

pub fn wrapping(a: u8, b: u8) -> u8 {
    a.wrapping_add(b) // control: silent callee
}

pub fn clock() -> std::time::Instant {
    std::time::Instant::now() // control: deny-listed callee (clock)
}

pub fn hash_order(m: &HashMap<String, u32>) -> Vec<u32> {
    m.values().copied().collect() // control: hash-ordered iteration
}

pub fn seeded_map() -> usize {
    let m: HashMap<u8, u8> = HashMap::new(); // control: ambient source (hash seed) reached only through upstream code
    m.len()
}

pub fn unsafe_block(p: *const u8) -> u8 {
    unsafe { *p } // control: hand-written unsafe
}

pub enum Tree {
    Leaf,
    Node(Box<Tree>, Box<Tree>),
}

pub fn depth(t: &Tree) -> usize {
    match t {
        Tree::Leaf => 0,
        Tree::Node(a, b) => 1 + depth(a).max(depth(b)), // control: unguarded recursion
    }
}

pub fn guarded(t: &Tree, level: usize) -> Result<usize, ()> {
    if level > 64 {
        return Err(());
    }
    match t {
        Tree::Leaf => Ok(0),
        Tree::Node(a, _) => Ok(1 + guarded(a, level + 1)?), // control: guarded recursion (must be recognised as guarded)
    }
}

pub fn total_ops(x: Option<u32>) -> u32 {
    x.unwrap_or(7) // control: total despite the name (must NOT be reported)
}

pub enum Doc {
    Text(String),
    List(Vec<Doc>),
}

impl std::fmt::Display for Doc {
    fn fmt(&self, f: &mut std::fmt::Formatter<'_>) -> std::fmt::Result {
        match self {
            // control: escaping raw data (must NOT be reported)
            Doc::Text(s) => write!(f, "\"{}\"", s.replace('"', "\\\"")),
            Doc::List(items) => {
                // control: the rendering of a sub-term is rewritten before it is written
                let lines: Vec<String> = items.iter().map(|i| i.to_string().replace('\n', "\n  ")).collect();
                write!(f, "[{}]", lines.join(", "))
            }
        }
    }
}
