//! mirfacts: a rustc_private driver that exports the resolved program of one crate
//! (pre-borrowck MIR of every body, resolved callees, types, ADTs, statics, impls,
//! signatures, unsafe uses, and a monomorphic instance call graph) as one JSON file.
//!
//! It is injected as RUSTC_WORKSPACE_WRAPPER; it only acts on the crate named by
//! MIRFACTS_CRATE (default "reval") when compiled as a lib, and behaves like plain
//! rustc for everything else.  Nothing of the analysed crate is executed.
#![feature(rustc_private)]
#![allow(unused)]

extern crate rustc_abi;
extern crate rustc_ast;
extern crate rustc_data_structures;
extern crate rustc_driver;
extern crate rustc_hir;
extern crate rustc_index;
extern crate rustc_interface;
extern crate rustc_middle;
extern crate rustc_session;
extern crate rustc_span;

mod json;
mod mono;

use json::J;
use rustc_data_structures::fx::{FxHashMap, FxHashSet};
use rustc_driver::{Callbacks, Compilation};
use rustc_hir::def::DefKind;
use rustc_hir::def_id::{DefId, LocalDefId};
use rustc_middle::mir::interpret::{GlobalAlloc, Scalar};
use rustc_middle::mir::*;
use rustc_middle::ty::print::with_no_trimmed_paths;
use rustc_middle::ty::{self, GenericArgsRef, Instance, InstanceKind, Ty, TyCtxt, TypeVisitableExt, TypingEnv};
use rustc_span::Span;

pub struct Cx<'tcx> {
    pub tcx: TyCtxt<'tcx>,
    pub types: Vec<J>,
    pub ty_map: FxHashMap<Ty<'tcx>, usize>,
    pub adts: Vec<DefId>,
    pub adt_seen: FxHashSet<DefId>,
}

impl<'tcx> Cx<'tcx> {
    pub fn path(&self, d: DefId) -> String {
        self.tcx.def_path_str(d)
    }

    fn note_adt(&mut self, d: DefId) {
        if self.adt_seen.insert(d) {
            self.adts.push(d);
        }
    }

    pub fn ty_id(&mut self, ty: Ty<'tcx>) -> usize {
        if let Some(&i) = self.ty_map.get(&ty) {
            return i;
        }
        let i = self.types.len();
        self.types.push(J::Null);
        self.ty_map.insert(ty, i);
        let mut o: Vec<(&str, J)> = vec![("s", J::s(ty.to_string()))];
        match *ty.kind() {
            ty::Adt(def, args) => {
                o.push(("k", J::s("adt")));
                o.push(("adt", J::s(self.path(def.did()))));
                let a: Vec<J> = args.types().map(|t| J::n(self.ty_id(t))).collect();
                o.push(("args", J::Arr(a)));
                if ty.is_box() {
                    o.push(("box", J::Bool(true)));
                }
                self.note_adt(def.did());
            }
            ty::Ref(_, inner, m) => {
                o.push(("k", J::s("ref")));
                o.push(("inner", J::n(self.ty_id(inner))));
                o.push(("mut", J::Bool(m.is_mut())));
            }
            ty::RawPtr(inner, m) => {
                o.push(("k", J::s("ptr")));
                o.push(("inner", J::n(self.ty_id(inner))));
                o.push(("mut", J::Bool(m.is_mut())));
            }
            ty::Tuple(tys) => {
                o.push(("k", J::s("tuple")));
                let a: Vec<J> = tys.iter().map(|t| J::n(self.ty_id(t))).collect();
                o.push(("args", J::Arr(a)));
            }
            ty::Slice(t) => {
                o.push(("k", J::s("slice")));
                o.push(("inner", J::n(self.ty_id(t))));
            }
            ty::Array(t, _n) => {
                o.push(("k", J::s("array")));
                o.push(("inner", J::n(self.ty_id(t))));
            }
            ty::Int(_) => o.push(("k", J::s("int"))),
            ty::Uint(_) => o.push(("k", J::s("uint"))),
            ty::Float(_) => o.push(("k", J::s("float"))),
            ty::Bool => o.push(("k", J::s("bool"))),
            ty::Char => o.push(("k", J::s("char"))),
            ty::Str => o.push(("k", J::s("str"))),
            ty::Never => o.push(("k", J::s("never"))),
            ty::FnDef(d, _) => {
                o.push(("k", J::s("fndef")));
                o.push(("def", J::s(self.path(d))));
            }
            ty::Closure(d, _) => {
                o.push(("k", J::s("closure")));
                o.push(("def", J::s(self.path(d))));
            }
            ty::Coroutine(d, _) => {
                o.push(("k", J::s("coroutine")));
                o.push(("def", J::s(self.path(d))));
            }
            ty::CoroutineClosure(d, _) => {
                o.push(("k", J::s("coroutine_closure")));
                o.push(("def", J::s(self.path(d))));
            }
            ty::Dynamic(preds, ..) => {
                o.push(("k", J::s("dyn")));
                if let Some(p) = preds.principal_def_id() {
                    o.push(("trait", J::s(self.path(p))));
                }
            }
            ty::Param(_) => o.push(("k", J::s("param"))),
            ty::Alias(..) => o.push(("k", J::s("alias"))),
            ty::FnPtr(..) => o.push(("k", J::s("fnptr"))),
            _ => o.push(("k", J::s("other"))),
        }
        self.types[i] = J::obj(o);
        i
    }

    pub fn span_s(&self, sp: Span) -> String {
        let sm = self.tcx.sess.source_map();
        let sp = sp.source_callsite();
        let lo = sm.lookup_char_pos(sp.lo());
        format!("{}:{}", lo.file.name.prefer_local_unconditionally(), lo.line)
    }

    pub fn exp_s(&self, sp: Span) -> J {
        if sp.from_expansion() {
            let d = sp.ctxt().outer_expn_data();
            J::s(format!("{:?}", d.kind))
        } else {
            J::Null
        }
    }

    fn place(&mut self, p: &Place<'tcx>) -> J {
        let mut proj = vec![];
        for e in p.projection.iter() {
            proj.push(match e {
                ProjectionElem::Deref => J::Arr(vec![J::s("deref")]),
                ProjectionElem::Field(f, t) => {
                    J::Arr(vec![J::s("field"), J::n(f.as_usize()), J::n(self.ty_id(t))])
                }
                ProjectionElem::Index(l) => J::Arr(vec![J::s("index"), J::n(l.as_usize())]),
                ProjectionElem::ConstantIndex { offset, min_length, from_end } => J::Arr(vec![
                    J::s("constidx"),
                    J::n(offset),
                    J::n(min_length),
                    J::Bool(from_end),
                ]),
                ProjectionElem::Subslice { from, to, from_end } => {
                    J::Arr(vec![J::s("subslice"), J::n(from), J::n(to), J::Bool(from_end)])
                }
                ProjectionElem::Downcast(name, v) => J::Arr(vec![
                    J::s("downcast"),
                    J::opt_s(name.map(|s| s.to_string())),
                    J::n(v.as_usize()),
                ]),
                ProjectionElem::OpaqueCast(t) => {
                    J::Arr(vec![J::s("opaquecast"), J::n(self.ty_id(t))])
                }
                ProjectionElem::UnwrapUnsafeBinder(t) => {
                    J::Arr(vec![J::s("unwrapbinder"), J::n(self.ty_id(t))])
                }
            });
        }
        J::obj(vec![("l", J::n(p.local.as_usize())), ("p", J::Arr(proj))])
    }

    fn read_bytes(&self, alloc_id: rustc_middle::mir::interpret::AllocId, off: usize, len: usize) -> Option<Vec<u8>> {
        match self.tcx.try_get_global_alloc(alloc_id)? {
            GlobalAlloc::Memory(a) => {
                let a = a.inner();
                if off + len > a.len() {
                    return None;
                }
                Some(a.inspect_with_uninit_and_ptr_outside_interpreter(off..off + len).to_vec())
            }
            _ => None,
        }
    }

    fn bytes_json(b: &[u8]) -> J {
        let mut o = vec![("bytes", J::Arr(b.iter().map(|x| J::n(*x)).collect()))];
        if let Ok(s) = std::str::from_utf8(b) {
            o.push(("str", J::s(s)));
        }
        J::obj(o)
    }

    pub fn fn_ref(&mut self, env: TypingEnv<'tcx>, d: DefId, args: GenericArgsRef<'tcx>) -> J {
        let tcx = self.tcx;
        let mut o: Vec<(&str, J)> = vec![("path", J::s(self.path(d)))];
        o.push(("name", J::s(tcx.item_name(d).to_string())));
        o.push(("full", J::s(tcx.def_path_str_with_args(d, args))));
        let a: Vec<J> = args.types().map(|t| J::n(self.ty_id(t))).collect();
        o.push(("args", J::Arr(a)));
        o.push(("local", J::Bool(d.is_local())));
        o.push(("crate", J::s(tcx.crate_name(d.krate).to_string())));
        if matches!(tcx.def_kind(d), DefKind::Fn | DefKind::AssocFn) {
            // names of the callee's type parameters, in the order of `args` (parents first)
            let g = tcx.generics_of(d);
            let mut names: Vec<J> = vec![];
            for i in 0..g.count() {
                let p = g.param_at(i, tcx);
                if let ty::GenericParamDefKind::Type { .. } = p.kind {
                    names.push(J::s(p.name.to_string()));
                }
            }
            o.push(("gparams", J::Arr(names)));
        }
        if let DefKind::Ctor(of, _) = tcx.def_kind(d) {
            // constructor function of a tuple struct / variant
            let p = tcx.parent(d);
            let (adt, variant) = match of {
                rustc_hir::def::CtorOf::Variant => (tcx.parent(p), tcx.item_name(p).to_string()),
                rustc_hir::def::CtorOf::Struct => (p, tcx.item_name(p).to_string()),
            };
            o.push(("ctor", J::obj(vec![("adt", J::s(self.path(adt))), ("variant", J::s(variant))])));
        }
        if let Some(tr) = tcx.trait_of_assoc(d) {
            o.push(("trait", J::s(self.path(tr))));
            if args.len() > 0 {
                if let Some(t0) = args.types().next() {
                    o.push(("self_ty", J::n(self.ty_id(t0))));
                }
            }
        } else if let Some(imp) = tcx.impl_of_assoc(d) {
            let st = tcx.type_of(imp).instantiate(tcx, args).skip_norm_wip();
            o.push(("impl_self", J::n(self.ty_id(st))));
            if let Some(tr) = tcx.impl_opt_trait_ref(imp) {
                o.push(("impl_trait", J::s(self.path(tr.skip_binder().def_id))));
            }
        }
        if matches!(tcx.def_kind(d), DefKind::Fn | DefKind::AssocFn | DefKind::Ctor(..)) {
            let has_infer = args.iter().any(|a| format!("{:?}", a).contains("?"));
            if !has_infer {
                if let Ok(Some(inst)) = Instance::try_resolve(tcx, env, d, args) {
                    let rd = inst.def_id();
                    o.push(("resolved", J::s(self.path(rd))));
                    o.push(("resolved_full", J::s(tcx.def_path_str_with_args(rd, inst.args))));
                    o.push(("resolved_local", J::Bool(rd.is_local())));
                    o.push(("resolved_kind", J::s(instance_kind_name(&inst.def))));
                    o.push(("resolved_crate", J::s(tcx.crate_name(rd.krate).to_string())));
                    let ra: Vec<J> = inst.args.types().map(|t| J::n(self.ty_id(t))).collect();
                    o.push(("resolved_args", J::Arr(ra)));
                }
            }
        }
        J::obj(o)
    }

    fn constant(&mut self, env: TypingEnv<'tcx>, c: &ConstOperand<'tcx>) -> J {
        let tcx = self.tcx;
        let ty = c.const_.ty();
        let mut o: Vec<(&str, J)> = vec![
            ("k", J::s("const")),
            ("ty", J::n(self.ty_id(ty))),
            ("d", J::s(format!("{}", c.const_))),
        ];
        if let ty::FnDef(d, args) = *ty.kind() {
            o.push(("fn", self.fn_ref(env, d, args)));
            return J::obj(o);
        }
        if let Const::Unevaluated(u, _) = c.const_ {
            o.push(("unevaluated", J::s(self.path(u.def))));
            // the type arguments of an associated constant used in generic code (`<T as Trait>::NAME`): lets the rule
            // layer pick the impl's constant once T is known
            let mut targs = vec![];
            for a in u.args.iter() {
                if let Some(t) = a.as_type() {
                    targs.push(J::n(self.ty_id(t)));
                }
            }
            if !targs.is_empty() {
                o.push(("uargs", J::Arr(targs)));
            }
            if let Some(p) = u.promoted {
                o.push(("promoted", J::n(p.as_usize())));
            }
        }
        let val = match c.const_ {
            Const::Val(v, _) => Some(v),
            Const::Unevaluated(u, _) if u.promoted.is_none() && u.args.is_empty() => {
                c.const_.eval(tcx, env, c.span).ok()
            }
            Const::Ty(_, ct) => match ct.kind() {
                ty::ConstKind::Value(v) => Some(tcx.valtree_to_const_val(v)),
                _ => None,
            },
            _ => None,
        };
        if let Some(v) = val {
            if let ty::Adt(ad, _) = ty.kind() {
                if ad.did().is_local() && (ad.is_enum() || ad.is_struct()) {
                    if let Some(t) = self.const_tree(env, v, ty, 0) {
                        o.push(("tree", t));
                    }
                }
            }
            // a named constant table (array / tuple of readable leaves)
            if matches!(ty.kind(), ty::Array(..) | ty::Tuple(..)) && matches!(c.const_, Const::Unevaluated(..)) {
                if let Some(t) = self.const_tree(env, v, ty, 0) {
                    o.push(("tree", t));
                }
            }
            // `&CONST` of a crate-local ADT type: the tree of the pointee
            if let ty::Ref(_, inner, _) = ty.kind() {
                if let ty::Adt(ad, _) = inner.kind() {
                    if ad.did().is_local() && (ad.is_enum() || ad.is_struct()) {
                        if let ConstValue::Scalar(Scalar::Ptr(ptr, _)) = v {
                            let (prov, off) = ptr.into_raw_parts();
                            // a static is only read as a constant when nothing can change it: not `mut`, no interior mutability
                            let frozen_static = match tcx.try_get_global_alloc(prov.alloc_id()) {
                                Some(GlobalAlloc::Static(did)) => !tcx.is_mutable_static(did) && inner.is_freeze(tcx, env),
                                _ => true,
                            };
                            if !frozen_static {
                                return J::obj(o);
                            }
                            let pointee = ConstValue::Indirect { alloc_id: prov.alloc_id(), offset: off };
                            if let Some(t) = self.const_tree(env, pointee, *inner, 0) {
                                o.push(("tree_ref", t));
                            }
                        }
                    }
                }
            }
            match v {
                ConstValue::Scalar(Scalar::Int(si)) => match ty.kind() {
                    ty::Bool => o.push(("bool", J::Bool(si.to_uint(si.size()) != 0))),
                    ty::Char => {
                        let u = si.to_uint(si.size()) as u32;
                        o.push(("char", J::n(u)));
                    }
                    ty::Int(_) => o.push(("int", J::s(si.to_int(si.size()).to_string()))),
                    ty::Uint(_) => o.push(("int", J::s(si.to_uint(si.size()).to_string()))),
                    ty::Float(_) => o.push(("floatbits", J::s(si.to_uint(si.size()).to_string()))),
                    _ => o.push(("scalar", J::s(format!("{:?}", si)))),
                },
                ConstValue::Scalar(Scalar::Ptr(ptr, _)) => {
                    let (prov, off) = ptr.into_raw_parts();
                    let alloc_id = prov.alloc_id();
                    // &[u8; N]
                    if let ty::Ref(_, inner, _) = ty.kind() {
                        if let ty::Array(et, n) = inner.kind() {
                            if *et == tcx.types.u8 {
                                if let Some(n) = n.try_to_target_usize(tcx) {
                                    if let Some(b) =
                                        self.read_bytes(alloc_id, off.bytes() as usize, n as usize)
                                    {
                                        o.push(("data", Self::bytes_json(&b)));
                                    }
                                }
                            }
                        }
                    }
                }
                ConstValue::ZeroSized => o.push(("zst", J::Bool(true))),
                ConstValue::Slice { alloc_id, meta } => {
                    if let Some(b) = self.read_bytes(alloc_id, 0, meta as usize) {
                        o.push(("data", Self::bytes_json(&b)));
                    }
                }
                ConstValue::Indirect { alloc_id, offset } => {
                    if let ty::Array(et, n) = ty.kind() {
                        if *et == tcx.types.u8 {
                            if let Some(n) = n.try_to_target_usize(tcx) {
                                if let Some(b) =
                                    self.read_bytes(alloc_id, offset.bytes() as usize, n as usize)
                                {
                                    o.push(("data", Self::bytes_json(&b)));
                                }
                            }
                        }
                    }
                }
            }
        }
        J::obj(o)
    }

    /// value of a constant of a crate-local ADT type as a tree {adt, variant, fields} with scalar leaves
    fn const_tree(&mut self, env: TypingEnv<'tcx>, v: ConstValue, ty: Ty<'tcx>, depth: usize) -> Option<J> {
        let tcx = self.tcx;
        if depth > 6 {
            return None;
        }
        match ty.kind() {
            ty::Bool | ty::Char | ty::Int(_) | ty::Uint(_) | ty::Float(_) => {
                if let ConstValue::Scalar(Scalar::Int(si)) = v {
                    return Some(match ty.kind() {
                        ty::Bool => J::obj(vec![("bool", J::Bool(si.to_uint(si.size()) != 0))]),
                        ty::Int(_) => J::obj(vec![("int", J::s(si.to_int(si.size()).to_string()))]),
                        ty::Uint(_) => J::obj(vec![("int", J::s(si.to_uint(si.size()).to_string()))]),
                        ty::Char => J::obj(vec![("char", J::n(si.to_uint(si.size()) as u32 as usize))]),
                        _ => J::obj(vec![("floatbits", J::s(si.to_uint(si.size()).to_string()))]),
                    });
                }
                None
            }
            ty::FnPtr(..) => {
                // a function pointer stored in a constant (a table of operations): which function it is
                if let ConstValue::Scalar(Scalar::Ptr(ptr, _)) = v {
                    let (prov, _off) = ptr.into_raw_parts();
                    if let rustc_middle::mir::interpret::GlobalAlloc::Function { instance } = tcx.global_alloc(prov.alloc_id()) {
                        return Some(J::obj(vec![("fnref", self.fn_ref(env, instance.def_id(), instance.args))]));
                    }
                }
                None
            }
            ty::FnDef(d, args) => Some(J::obj(vec![("fnref", self.fn_ref(env, *d, args))])),
            ty::Ref(_, inner, _) if matches!(inner.kind(), ty::Str) => {
                if let ConstValue::Slice { alloc_id, meta } = v {
                    if let Some(b) = self.read_bytes(alloc_id, 0, meta as usize) {
                        return Some(J::obj(vec![("data", Self::bytes_json(&b))]));
                    }
                }
                // a fat pointer kept in the memory of an enclosing constant: (pointer with provenance, length)
                if let ConstValue::Indirect { alloc_id, offset } = v {
                    let mem = match tcx.try_get_global_alloc(alloc_id) {
                        Some(GlobalAlloc::Memory(a)) => Some(a),
                        Some(GlobalAlloc::Static(did)) if !tcx.is_mutable_static(did) => tcx.eval_static_initializer(did).ok(),
                        _ => None,
                    };
                    if let Some(a) = mem {
                        let a = a.inner();
                        let ps = tcx.data_layout.pointer_size().bytes() as usize;
                        let off = offset.bytes() as usize;
                        if off + 2 * ps <= a.len() && ps == 8 {
                            if let Some((_, prov)) = a.provenance().ptrs().iter().find(|(o, _)| o.bytes() as usize == off) {
                                let raw = a.inspect_with_uninit_and_ptr_outside_interpreter(off..off + 2 * ps);
                                let inner_off = u64::from_le_bytes(raw[0..8].try_into().ok()?) as usize;
                                let len = u64::from_le_bytes(raw[8..16].try_into().ok()?) as usize;
                                if let Some(b) = self.read_bytes(prov.alloc_id(), inner_off, len) {
                                    return Some(J::obj(vec![("data", Self::bytes_json(&b))]));
                                }
                            }
                        }
                    }
                }
                None
            }
            ty::Array(..) | ty::Tuple(..) => {
                let d = tcx.try_destructure_mir_constant_for_user_output(v, ty)?;
                if d.fields.len() > 64 {
                    return None;
                }
                let mut fields = vec![];
                for (fv, fty) in d.fields.iter() {
                    fields.push(self.const_tree(env, *fv, *fty, depth + 1)?);
                }
                let key = if matches!(ty.kind(), ty::Array(..)) { "array" } else { "tuple" };
                Some(J::obj(vec![(key, J::Arr(fields))]))
            }
            ty::Adt(ad, _) if ad.is_enum() || ad.is_struct() => {
                let d = tcx.try_destructure_mir_constant_for_user_output(v, ty)?;
                let vidx = d.variant.unwrap_or(rustc_abi::FIRST_VARIANT);
                let vdef = ad.variant(vidx);
                let mut fields = vec![];
                for (fv, fty) in d.fields.iter() {
                    // a leaf that cannot be read (a fat pointer kept in memory ...) stays opaque; the rest of the tree is still known
                    let t = self.const_tree(env, *fv, *fty, depth + 1)
                        .unwrap_or_else(|| J::obj(vec![("opaque", J::s(format!("{}", fty)))]));
                    fields.push(t);
                }
                Some(J::obj(vec![
                    ("adt", J::s(self.path(ad.did()))),
                    ("variant", J::s(vdef.name.to_string())),
                    ("fields", J::Arr(fields)),
                ]))
            }
            _ => None,
        }
    }

    fn operand(&mut self, env: TypingEnv<'tcx>, op: &Operand<'tcx>) -> J {
        match op {
            Operand::Copy(p) => J::obj(vec![("k", J::s("copy")), ("place", self.place(p))]),
            Operand::Move(p) => J::obj(vec![("k", J::s("move")), ("place", self.place(p))]),
            Operand::Constant(c) => self.constant(env, c),
            Operand::RuntimeChecks(rc) => {
                J::obj(vec![("k", J::s("runtime_checks")), ("d", J::s(format!("{:?}", rc)))])
            }
        }
    }

    fn rvalue(&mut self, env: TypingEnv<'tcx>, body: &Body<'tcx>, rv: &Rvalue<'tcx>) -> J {
        let tcx = self.tcx;
        match rv {
            Rvalue::Use(op, _) => J::obj(vec![("k", J::s("use")), ("op", self.operand(env, op))]),
            Rvalue::Repeat(op, n) => J::obj(vec![
                ("k", J::s("repeat")),
                ("op", self.operand(env, op)),
                ("n", J::s(format!("{}", n))),
                // the evaluated length when it is known here (a literal, or a named constant without generic parameters)
                ("len", match tcx.try_normalize_erasing_regions(env, rustc_middle::ty::Unnormalized::new_wip(*n)).ok().and_then(|c| c.try_to_target_usize(tcx)) {
                    Some(v) => J::s(format!("{}", v)),
                    None => J::s(String::new()),
                }),
            ]),
            Rvalue::Ref(_, bk, p) => J::obj(vec![
                ("k", J::s("ref")),
                (
                    "bk",
                    J::s(match bk {
                        BorrowKind::Shared => "shared",
                        BorrowKind::Fake(_) => "fake",
                        BorrowKind::Mut { .. } => "mut",
                    }),
                ),
                ("place", self.place(p)),
            ]),
            Rvalue::ThreadLocalRef(d) => {
                J::obj(vec![("k", J::s("threadlocalref")), ("def", J::s(self.path(*d)))])
            }
            Rvalue::RawPtr(k, p) => J::obj(vec![
                ("k", J::s("rawptr")),
                ("d", J::s(format!("{:?}", k))),
                ("place", self.place(p)),
            ]),
            Rvalue::Cast(ck, op, to) => {
                let from = op.ty(body, tcx);
                J::obj(vec![
                    ("k", J::s("cast")),
                    ("ck", J::s(format!("{:?}", ck))),
                    ("op", self.operand(env, op)),
                    ("from", J::n(self.ty_id(from))),
                    ("to", J::n(self.ty_id(*to))),
                ])
            }
            Rvalue::BinaryOp(op, ab) => {
                let t = ab.0.ty(body, tcx);
                J::obj(vec![
                    ("k", J::s("binop")),
                    ("op", J::s(format!("{:?}", op))),
                    ("a", self.operand(env, &ab.0)),
                    ("b", self.operand(env, &ab.1)),
                    ("opty", J::n(self.ty_id(t))),
                ])
            }
            Rvalue::UnaryOp(op, a) => {
                let t = a.ty(body, tcx);
                J::obj(vec![
                    ("k", J::s("unop")),
                    ("op", J::s(format!("{:?}", op))),
                    ("a", self.operand(env, a)),
                    ("opty", J::n(self.ty_id(t))),
                ])
            }
            Rvalue::Discriminant(p) => {
                J::obj(vec![("k", J::s("discr")), ("place", self.place(p))])
            }
            Rvalue::Aggregate(ak, ops) => {
                let mut o: Vec<(&str, J)> = vec![("k", J::s("agg"))];
                match **ak {
                    AggregateKind::Array(t) => {
                        o.push(("ak", J::s("array")));
                        o.push(("elem", J::n(self.ty_id(t))));
                    }
                    AggregateKind::Tuple => o.push(("ak", J::s("tuple"))),
                    AggregateKind::Adt(d, v, args, _, fidx) => {
                        o.push(("ak", J::s("adt")));
                        o.push(("adt", J::s(self.path(d))));
                        let def = tcx.adt_def(d);
                        self.note_adt(d);
                        o.push(("vidx", J::n(v.as_usize())));
                        o.push(("variant", J::s(def.variant(v).name.to_string())));
                        if let Some(f) = fidx {
                            o.push(("union_field", J::n(f.as_usize())));
                        }
                    }
                    AggregateKind::Closure(d, _) => {
                        o.push(("ak", J::s("closure")));
                        o.push(("def", J::s(self.path(d))));
                    }
                    AggregateKind::Coroutine(d, _) => {
                        o.push(("ak", J::s("coroutine")));
                        o.push(("def", J::s(self.path(d))));
                    }
                    AggregateKind::CoroutineClosure(d, _) => {
                        o.push(("ak", J::s("coroutine_closure")));
                        o.push(("def", J::s(self.path(d))));
                    }
                    AggregateKind::RawPtr(..) => o.push(("ak", J::s("rawptr"))),
                }
                let v: Vec<J> = ops.iter().map(|x| self.operand(env, x)).collect();
                o.push(("ops", J::Arr(v)));
                J::obj(o)
            }
            Rvalue::CopyForDeref(p) => {
                J::obj(vec![("k", J::s("copyforderef")), ("place", self.place(p))])
            }
            Rvalue::WrapUnsafeBinder(op, _) => {
                J::obj(vec![("k", J::s("wrapbinder")), ("op", self.operand(env, op))])
            }
        }
    }

    fn unwind(u: &UnwindAction) -> J {
        match u {
            UnwindAction::Cleanup(bb) => J::n(bb.as_usize()),
            _ => J::Null,
        }
    }

    fn terminator(&mut self, env: TypingEnv<'tcx>, body: &Body<'tcx>, t: &Terminator<'tcx>) -> J {
        let tcx = self.tcx;
        let mut o: Vec<(&str, J)> = vec![];
        match &t.kind {
            TerminatorKind::Goto { target } => {
                o.push(("k", J::s("goto")));
                o.push(("t", J::n(target.as_usize())));
            }
            TerminatorKind::SwitchInt { discr, targets } => {
                o.push(("k", J::s("switch")));
                o.push(("op", self.operand(env, discr)));
                let dty = discr.ty(body, tcx);
                o.push(("ty", J::n(self.ty_id(dty))));
                let signed = matches!(dty.kind(), ty::Int(_));
                let mut ts = vec![];
                for (v, bb) in targets.iter() {
                    ts.push(J::Arr(vec![J::s(v.to_string()), J::n(bb.as_usize())]));
                }
                o.push(("targets", J::Arr(ts)));
                o.push(("otherwise", J::n(targets.otherwise().as_usize())));
            }
            TerminatorKind::UnwindResume => o.push(("k", J::s("resume"))),
            TerminatorKind::UnwindTerminate(_) => o.push(("k", J::s("terminate"))),
            TerminatorKind::Return => o.push(("k", J::s("return"))),
            TerminatorKind::Unreachable => o.push(("k", J::s("unreachable"))),
            TerminatorKind::Drop { place, target, unwind, .. } => {
                o.push(("k", J::s("drop")));
                o.push(("place", self.place(place)));
                let pty = place.ty(body, tcx).ty;
                o.push(("ty", J::n(self.ty_id(pty))));
                o.push(("t", J::n(target.as_usize())));
                o.push(("unwind", Self::unwind(unwind)));
            }
            TerminatorKind::Call { func, args, destination, target, unwind, call_source, fn_span } => {
                o.push(("k", J::s("call")));
                o.push(("func", self.operand(env, func)));
                let fty = func.ty(body, tcx);
                if let ty::FnDef(d, ga) = *fty.kind() {
                    if func.constant().is_none() {
                        o.push(("callee", self.fn_ref(env, d, ga)));
                    }
                } else {
                    o.push(("indirect", J::n(self.ty_id(fty))));
                }
                let a: Vec<J> = args.iter().map(|x| self.operand(env, &x.node)).collect();
                o.push(("args", J::Arr(a)));
                o.push(("dest", self.place(destination)));
                o.push(("t", match target { Some(b) => J::n(b.as_usize()), None => J::Null }));
                o.push(("unwind", Self::unwind(unwind)));
                o.push(("source", J::s(format!("{:?}", call_source))));
                o.push(("fn_span", J::s(self.span_s(*fn_span))));
            }
            TerminatorKind::TailCall { func, args, .. } => {
                o.push(("k", J::s("tailcall")));
                o.push(("func", self.operand(env, func)));
            }
            TerminatorKind::Assert { cond, expected, msg, target, unwind } => {
                o.push(("k", J::s("assert")));
                o.push(("cond", self.operand(env, cond)));
                o.push(("expected", J::Bool(*expected)));
                let (mk, opty) = match &**msg {
                    AssertKind::BoundsCheck { .. } => ("BoundsCheck".to_string(), None),
                    AssertKind::Overflow(op, a, _) => (format!("Overflow({:?})", op), Some(a.ty(body, tcx))),
                    AssertKind::OverflowNeg(a) => ("OverflowNeg".to_string(), Some(a.ty(body, tcx))),
                    AssertKind::DivisionByZero(a) => ("DivisionByZero".to_string(), Some(a.ty(body, tcx))),
                    AssertKind::RemainderByZero(a) => ("RemainderByZero".to_string(), Some(a.ty(body, tcx))),
                    AssertKind::ResumedAfterReturn(_) => ("ResumedAfterReturn".to_string(), None),
                    AssertKind::ResumedAfterPanic(_) => ("ResumedAfterPanic".to_string(), None),
                    AssertKind::ResumedAfterDrop(_) => ("ResumedAfterDrop".to_string(), None),
                    AssertKind::MisalignedPointerDereference { .. } => ("MisalignedPointerDereference".to_string(), None),
                    AssertKind::NullPointerDereference => ("NullPointerDereference".to_string(), None),
                    AssertKind::InvalidEnumConstruction(_) => ("InvalidEnumConstruction".to_string(), None),
                };
                o.push(("msg", J::s(mk)));
                if let Some(t) = opty {
                    o.push(("opty", J::n(self.ty_id(t))));
                }
                o.push(("t", J::n(target.as_usize())));
                o.push(("unwind", Self::unwind(unwind)));
            }
            TerminatorKind::Yield { value, resume, resume_arg, drop } => {
                o.push(("k", J::s("yield")));
                o.push(("value", self.operand(env, value)));
                o.push(("resume", J::n(resume.as_usize())));
                o.push(("resume_arg", self.place(resume_arg)));
                o.push(("drop", match drop { Some(b) => J::n(b.as_usize()), None => J::Null }));
            }
            TerminatorKind::CoroutineDrop => o.push(("k", J::s("coroutine_drop"))),
            TerminatorKind::FalseEdge { real_target, imaginary_target } => {
                o.push(("k", J::s("falseedge")));
                o.push(("t", J::n(real_target.as_usize())));
                o.push(("imag", J::n(imaginary_target.as_usize())));
            }
            TerminatorKind::FalseUnwind { real_target, unwind } => {
                o.push(("k", J::s("falseunwind")));
                o.push(("t", J::n(real_target.as_usize())));
                o.push(("unwind", Self::unwind(unwind)));
            }
            TerminatorKind::InlineAsm { .. } => o.push(("k", J::s("inlineasm"))),
        }
        o.push(("span", J::s(self.span_s(t.source_info.span))));
        o.push(("exp", self.exp_s(t.source_info.span)));
        J::obj(o)
    }

    pub fn body_json(&mut self, def: LocalDefId, body: &Body<'tcx>) -> J {
        let tcx = self.tcx;
        let did = def.to_def_id();
        let env = TypingEnv::post_analysis(tcx, did);
        let mut o: Vec<(&str, J)> = vec![];
        o.push(("def", J::s(self.path(did))));
        o.push(("name", J::s(tcx.opt_item_name(did).map(|s| s.to_string()).unwrap_or_default())));
        o.push(("kind", J::s(format!("{:?}", tcx.def_kind(did)))));
        let root = tcx.typeck_root_def_id(did);
        o.push(("root", J::s(self.path(root))));
        if root != did {
            o.push(("parent", J::s(self.path(tcx.parent(did)))));
        }
        if let Some(ck) = tcx.coroutine_kind(did) {
            o.push(("coroutine_kind", J::s(format!("{:?}", ck))));
        }
        o.push(("span", J::s(self.span_s(body.span))));
        o.push(("exp", self.exp_s(body.span)));
        o.push(("arg_count", J::n(body.arg_count)));
        // impl info
        if matches!(tcx.def_kind(root), DefKind::AssocFn | DefKind::AssocConst { .. }) {
            let p = tcx.parent(root);
            if let DefKind::Impl { of_trait } = tcx.def_kind(p) {
                let st = tcx.type_of(p).instantiate_identity().skip_norm_wip();
                let mut io: Vec<(&str, J)> = vec![
                    ("self_ty", J::n(self.ty_id(st))),
                    ("self_s", J::s(st.to_string())),
                    ("derived", J::Bool(tcx.is_automatically_derived(p))),
                    ("impl_def", J::s(self.path(p))),
                ];
                if of_trait {
                    let tr = tcx.impl_trait_ref(p).instantiate_identity().skip_norm_wip();
                    io.push(("trait", J::s(self.path(tr.def_id))));
                    let ta: Vec<J> = tr.args.types().skip(1).map(|t| J::s(t.to_string())).collect();
                    io.push(("trait_args", J::Arr(ta)));
                    io.push(("trait_ref", J::s(tr.to_string())));
                }
                o.push(("impl", J::obj(io)));
            } else if let DefKind::Trait = tcx.def_kind(p) {
                o.push(("trait_default", J::s(self.path(p))));
            }
        }
        // locals
        let mut names: FxHashMap<usize, String> = FxHashMap::default();
        for vdi in &body.var_debug_info {
            if let VarDebugInfoContents::Place(p) = &vdi.value {
                if p.projection.is_empty() {
                    names.entry(p.local.as_usize()).or_insert(vdi.name.to_string());
                }
            }
        }
        let mut locals = vec![];
        for (l, d) in body.local_decls.iter_enumerated() {
            let mut lo: Vec<(&str, J)> = vec![("ty", J::n(self.ty_id(d.ty)))];
            if let Some(n) = names.get(&l.as_usize()) {
                lo.push(("name", J::s(n.clone())));
            }
            locals.push(J::obj(lo));
        }
        o.push(("locals", J::Arr(locals)));
        let mut upv = vec![];
        for vdi in &body.var_debug_info {
            if let VarDebugInfoContents::Place(p) = &vdi.value {
                if !p.projection.is_empty() {
                    upv.push(J::obj(vec![("name", J::s(vdi.name.to_string())), ("place", self.place(p))]));
                }
            }
        }
        o.push(("debug_places", J::Arr(upv)));
        // blocks
        let mut blocks = vec![];
        for (bb, data) in body.basic_blocks.iter_enumerated() {
            let mut stmts = vec![];
            for s in &data.statements {
                match &s.kind {
                    StatementKind::Assign(b) => {
                        let (p, rv) = &**b;
                        stmts.push(J::obj(vec![
                            ("k", J::s("assign")),
                            ("place", self.place(p)),
                            ("rv", self.rvalue(env, body, rv)),
                            ("span", J::s(self.span_s(s.source_info.span))),
                            ("exp", self.exp_s(s.source_info.span)),
                        ]));
                    }
                    StatementKind::SetDiscriminant { place, variant_index } => {
                        stmts.push(J::obj(vec![
                            ("k", J::s("setdiscr")),
                            ("place", self.place(place)),
                            ("vidx", J::n(variant_index.as_usize())),
                        ]));
                    }
                    StatementKind::Intrinsic(i) => {
                        stmts.push(J::obj(vec![("k", J::s("intrinsic")), ("d", J::s(format!("{:?}", i)))]));
                    }
                    _ => {}
                }
            }
            let term = self.terminator(env, body, data.terminator());
            blocks.push(J::obj(vec![
                ("stmts", J::Arr(stmts)),
                ("term", term),
                ("cleanup", J::Bool(data.is_cleanup)),
            ]));
        }
        o.push(("blocks", J::Arr(blocks)));
        J::obj(o)
    }

    pub fn adt_json(&mut self, d: DefId) -> J {
        let tcx = self.tcx;
        let def = tcx.adt_def(d);
        let local = d.is_local();
        let mut o: Vec<(&str, J)> = vec![
            ("path", J::s(self.path(d))),
            ("local", J::Bool(local)),
            ("kind", J::s(if def.is_enum() { "enum" } else if def.is_union() { "union" } else { "struct" })),
        ];
        if local {
            // names of the type parameters, in the order of the `args` of an instantiated type
            let gs: Vec<J> = tcx.generics_of(d).own_params.iter()
                .filter(|p| matches!(p.kind, ty::GenericParamDefKind::Type { .. }))
                .map(|p| J::s(p.name.to_string())).collect();
            o.push(("generics", J::Arr(gs)));
        }
        let mut vs = vec![];
        for (vi, v) in def.variants().iter_enumerated() {
            let mut vo: Vec<(&str, J)> = vec![("name", J::s(v.name.to_string())), ("idx", J::n(vi.as_usize()))];
            if def.is_enum() {
                let dv = def.discriminant_for_variant(tcx, vi);
                vo.push(("discr", J::s(dv.val.to_string())));
            }
            let mut fs = vec![];
            for f in v.fields.iter() {
                let ft = tcx.type_of(f.did).instantiate_identity().skip_norm_wip();
                let mut fo: Vec<(&str, J)> = vec![("name", J::s(f.name.to_string())), ("ty_s", J::s(ft.to_string()))];
                if local {
                    fo.push(("ty", J::n(self.ty_id(ft))));
                    fo.push(("public", J::Bool(f.vis.is_public())));
                    let env = TypingEnv::post_analysis(tcx, d);
                    if !ft.has_param() {
                        fo.push(("freeze", J::Bool(ft.is_freeze(tcx, env))));
                    }
                    // every ADT / raw pointer mentioned anywhere inside the field type
                    let mut mentions: Vec<String> = vec![];
                    for ga in ft.walk() {
                        if let Some(t) = ga.as_type() {
                            match t.kind() {
                                ty::Adt(ad, _) => mentions.push(self.path(ad.did())),
                                ty::RawPtr(..) => mentions.push("*raw".to_string()),
                                ty::Dynamic(p, ..) => {
                                    mentions.push(format!("dyn {}", t));
                                }
                                _ => {}
                            }
                        }
                    }
                    mentions.sort();
                    mentions.dedup();
                    fo.push(("mentions", J::Arr(mentions.into_iter().map(J::s).collect())));
                }
                fs.push(J::obj(fo));
            }
            vo.push(("fields", J::Arr(fs)));
            vs.push(J::obj(vo));
        }
        o.push(("variants", J::Arr(vs)));
        J::obj(o)
    }
}

pub fn instance_kind_name(k: &InstanceKind<'_>) -> &'static str {
    match k {
        InstanceKind::Item(_) => "Item",
        InstanceKind::Intrinsic(_) => "Intrinsic",
        InstanceKind::VTableShim(_) => "VTableShim",
        InstanceKind::ReifyShim(..) => "ReifyShim",
        InstanceKind::FnPtrShim(..) => "FnPtrShim",
        InstanceKind::Virtual(..) => "Virtual",
        InstanceKind::ClosureOnceShim { .. } => "ClosureOnceShim",
        InstanceKind::ConstructCoroutineInClosureShim { .. } => "ConstructCoroutineInClosureShim",
        InstanceKind::ThreadLocalShim(_) => "ThreadLocalShim",
        InstanceKind::FutureDropPollShim(..) => "FutureDropPollShim",
        InstanceKind::DropGlue(..) => "DropGlue",
        InstanceKind::CloneShim(..) => "CloneShim",
        InstanceKind::FnPtrAddrShim(..) => "FnPtrAddrShim",
        InstanceKind::AsyncDropGlueCtorShim(..) => "AsyncDropGlueCtorShim",
        InstanceKind::AsyncDropGlue(..) => "AsyncDropGlue",
    }
}

struct Facts {
    out: String,
    nonce: String,
    bodies_json: Option<String>,
}

impl Callbacks for Facts {
    fn after_expansion<'tcx>(
        &mut self,
        _compiler: &rustc_interface::interface::Compiler,
        tcx: TyCtxt<'tcx>,
    ) -> Compilation {
        // Phase 1: clone every mir_built body before anything can steal it.
        let mut owners: Vec<LocalDefId> = tcx.hir_body_owners().collect();
        // closures / coroutines are body owners too (hir_body_owners includes them)
        let mut bodies: Vec<(LocalDefId, Body<'tcx>)> = vec![];
        // constants first: building a function body whose types mention a constant (`[0u8; MAX_LEN]`) evaluates
        // that constant, which steals its mir_built
        owners.sort_by_key(|d| match tcx.def_kind(d.to_def_id()) {
            // (named ones only: the type of an anonymous constant comes from its parent's type check)
            DefKind::Const { .. } | DefKind::AssocConst { .. } | DefKind::Static { .. } => 0,
            _ => 1,
        });
        for def in owners {
            let built = tcx.mir_built(def);
            let b = if built.is_stolen() {
                // already consumed by constant evaluation (a constant used in the type of another constant)
                tcx.mir_for_ctfe(def.to_def_id()).clone()
            } else {
                built.borrow().clone()
            };
            bodies.push((def, b));
        }
        // Phase 2: export.
        let s = with_no_trimmed_paths!({
            let mut cx = Cx {
                tcx,
                types: vec![],
                ty_map: FxHashMap::default(),
                adts: vec![],
                adt_seen: FxHashSet::default(),
            };
            let mut bj = vec![];
            for (def, b) in &bodies {
                bj.push(cx.body_json(*def, b));
            }
            // items: statics, fns (signatures), impls
            let mut statics = vec![];
            let mut fns = vec![];
            let mut impls = vec![];
            for def in tcx.hir_crate_items(()).definitions() {
                let did = def.to_def_id();
                match tcx.def_kind(did) {
                    DefKind::Static { mutability, nested, .. } => {
                        let t = tcx.type_of(did).instantiate_identity().skip_norm_wip();
                        let env = TypingEnv::post_analysis(tcx, did);
                        statics.push(J::obj(vec![
                            ("path", J::s(cx.path(did))),
                            ("mut", J::Bool(mutability.is_mut())),
                            ("nested", J::Bool(nested)),
                            ("ty", J::n(cx.ty_id(t))),
                            ("ty_s", J::s(t.to_string())),
                            ("freeze", J::Bool(t.is_freeze(tcx, env))),
                            ("thread_local", J::Bool(tcx.is_thread_local_static(did))),
                            ("span", J::s(cx.span_s(tcx.def_span(did)))),
                            ("exp", cx.exp_s(tcx.def_span(did))),
                        ]));
                    }
                    DefKind::Fn | DefKind::AssocFn => {
                        let sig = tcx.fn_sig(did).instantiate_identity().skip_norm_wip().skip_binder();
                        let ins: Vec<J> = sig.inputs().iter().map(|t| J::s(t.to_string())).collect();
                        let g = tcx.generics_of(did);
                        let mut fo: Vec<(&str, J)> = vec![
                            ("path", J::s(cx.path(did))),
                            ("name", J::s(tcx.item_name(did).to_string())),
                            ("inputs", J::Arr(ins)),
                            ("output", J::s(sig.output().to_string())),
                            ("public", J::Bool(tcx.visibility(did).is_public())),
                            ("effective_public", J::Bool(tcx.effective_visibilities(()).is_reachable(def))),
                            ("async", J::Bool(tcx.asyncness(did).is_async())),
                            ("unsafe", J::Bool(sig.safety().is_unsafe())),
                            ("generic", J::Bool(g.requires_monomorphization(tcx))),
                            ("span", J::s(cx.span_s(tcx.def_span(did)))),
                            ("exp", cx.exp_s(tcx.def_span(did))),
                        ];
                        fns.push(J::obj(fo));
                    }
                    DefKind::Impl { of_trait } => {
                        let st = tcx.type_of(did).instantiate_identity().skip_norm_wip();
                        let mut io: Vec<(&str, J)> = vec![
                            ("def", J::s(cx.path(did))),
                            ("self_s", J::s(st.to_string())),
                            ("self_ty", J::n(cx.ty_id(st))),
                            ("derived", J::Bool(tcx.is_automatically_derived(did))),
                            ("span", J::s(cx.span_s(tcx.def_span(did)))),
                            ("exp", cx.exp_s(tcx.def_span(did))),
                        ];
                        if of_trait {
                            let tr = tcx.impl_trait_ref(did).instantiate_identity().skip_norm_wip();
                            io.push(("trait", J::s(cx.path(tr.def_id))));
                            io.push(("trait_ref", J::s(tr.to_string())));
                            let ta: Vec<J> = tr.args.types().skip(1).map(|t| J::s(t.to_string())).collect();
                            io.push(("trait_args", J::Arr(ta)));
                            let hdr = tcx.impl_trait_header(did);
                            io.push(("unsafe", J::Bool(hdr.safety.is_unsafe())));
                            io.push(("polarity", J::s(format!("{:?}", hdr.polarity))));
                        }
                        let methods: Vec<J> = tcx
                            .associated_items(did)
                            .in_definition_order()
                            .map(|a| J::s(a.name().to_string()))
                            .collect();
                        io.push(("items", J::Arr(methods)));
                        impls.push(J::obj(io));
                    }
                    DefKind::Struct | DefKind::Enum | DefKind::Union => {
                        cx.note_adt(did);
                    }
                    _ => {}
                }
            }
            // unsafe blocks (HIR)
            let unsafe_blocks = collect_unsafe(tcx, &cx);
            // ADTs (iterate to fixpoint: adt_json of local ADTs may intern more types)
            let mut adts = vec![];
            let mut i = 0;
            while i < cx.adts.len() {
                let d = cx.adts[i];
                adts.push(cx.adt_json(d));
                i += 1;
            }
            let root = J::obj(vec![
                ("nonce", J::s(self.nonce.clone())),
                ("crate", J::s(tcx.crate_name(rustc_hir::def_id::LOCAL_CRATE).to_string())),
                ("out_dir", J::s(std::env::var("OUT_DIR").unwrap_or_default())),
                ("bodies", J::Arr(bj)),
                ("types", J::Arr(cx.types.clone())),
                ("adts", J::Arr(adts)),
                ("statics", J::Arr(statics)),
                ("fns", J::Arr(fns)),
                ("impls", J::Arr(impls)),
                ("unsafe_blocks", J::Arr(unsafe_blocks)),
            ]);
            let mut s = String::new();
            root.write(&mut s);
            s
        });
        self.bodies_json = Some(s);
        Compilation::Continue
    }

    fn after_analysis<'tcx>(
        &mut self,
        _compiler: &rustc_interface::interface::Compiler,
        tcx: TyCtxt<'tcx>,
    ) -> Compilation {
        let mono = with_no_trimmed_paths!(mono::mono_graph(tcx));
        let mut ms = String::new();
        mono.write(&mut ms);
        let body = self.bodies_json.take().unwrap_or_else(|| "{}".to_string());
        // splice: {"mono":..., <rest of body object>}
        let mut out = String::with_capacity(body.len() + ms.len() + 32);
        out.push_str("{\"mono\":");
        out.push_str(&ms);
        out.push(',');
        out.push_str(&body[1..]);
        std::fs::write(&self.out, out).expect("mirfacts: cannot write facts file");
        Compilation::Continue
    }
}

fn collect_unsafe<'tcx>(tcx: TyCtxt<'tcx>, cx: &Cx<'tcx>) -> Vec<J> {
    use rustc_hir::intravisit::{self, Visitor};
    struct V<'a, 'tcx> {
        tcx: TyCtxt<'tcx>,
        cx: &'a Cx<'tcx>,
        out: Vec<J>,
        owner: String,
    }
    impl<'a, 'tcx> Visitor<'tcx> for V<'a, 'tcx> {
        fn visit_block(&mut self, b: &'tcx rustc_hir::Block<'tcx>) {
            if let rustc_hir::BlockCheckMode::UnsafeBlock(src) = b.rules {
                self.out.push(J::obj(vec![
                    ("owner", J::s(self.owner.clone())),
                    ("source", J::s(format!("{:?}", src))),
                    ("span", J::s(self.cx.span_s(b.span))),
                    ("exp", self.cx.exp_s(b.span)),
                ]));
            }
            intravisit::walk_block(self, b);
        }
    }
    let mut v = V { tcx, cx, out: vec![], owner: String::new() };
    for def in tcx.hir_body_owners() {
        v.owner = tcx.def_path_str(def.to_def_id());
        let body = tcx.hir_body_owned_by(def);
        v.visit_expr(body.value);
    }
    v.out
}

fn main() {
    // argv: [wrapper, rustc, args...] when used as RUSTC_WORKSPACE_WRAPPER
    let mut args: Vec<String> = std::env::args().collect();
    if args.len() >= 2 && (args[1].ends_with("rustc") || args[1].contains("/rustc")) {
        args.remove(1);
    }
    let want = std::env::var("MIRFACTS_CRATE").unwrap_or_else(|_| "reval".to_string());
    let mut crate_name = None;
    let mut is_lib = false;
    let mut is_test = false;
    let mut i = 0;
    while i < args.len() {
        if args[i] == "--crate-name" && i + 1 < args.len() {
            crate_name = Some(args[i + 1].clone());
        }
        if args[i] == "--crate-type" && i + 1 < args.len() && args[i + 1].contains("lib") {
            is_lib = true;
        }
        if args[i] == "--test" {
            is_test = true;
        }
        i += 1;
    }
    let out = std::env::var("MIRFACTS_OUT").ok();
    let active = crate_name.as_deref() == Some(want.as_str()) && is_lib && !is_test && out.is_some();
    if active {
        let mut cb = Facts {
            out: out.unwrap(),
            nonce: std::env::var("MIRFACTS_NONCE").unwrap_or_default(),
            bodies_json: None,
        };
        rustc_driver::run_compiler(&args, &mut cb);
    } else {
        struct Plain;
        impl Callbacks for Plain {}
        rustc_driver::run_compiler(&args, &mut Plain);
    }
}
