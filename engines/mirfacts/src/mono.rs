//! Monomorphic instance call graph from every non-generic local function (and drop glue /
//! derived trait impls of local ADTs), descending into upstream MIR where rustc has it.
use crate::json::J;
use crate::instance_kind_name;
use rustc_data_structures::fx::{FxHashMap, FxHashSet};
use rustc_hir::def::DefKind;
use rustc_hir::def_id::DefId;
use rustc_middle::mir::*;
use rustc_middle::ty::adjustment::PointerCoercion;
use rustc_middle::ty::{self, EarlyBinder, Instance, InstanceKind, Ty, TyCtxt, TypingEnv};

struct Walker<'tcx> {
    tcx: TyCtxt<'tcx>,
    ids: FxHashMap<Instance<'tcx>, usize>,
    nodes: Vec<Instance<'tcx>>,
    has_mir: Vec<bool>,
    edges: Vec<(usize, usize, &'static str)>,
    queue: Vec<usize>,
    notes: Vec<(usize, String)>,
}

impl<'tcx> Walker<'tcx> {
    fn id(&mut self, i: Instance<'tcx>) -> usize {
        if let Some(&n) = self.ids.get(&i) {
            return n;
        }
        let n = self.nodes.len();
        self.nodes.push(i);
        self.has_mir.push(false);
        self.ids.insert(i, n);
        self.queue.push(n);
        n
    }

    fn edge(&mut self, from: usize, to: Instance<'tcx>, kind: &'static str) {
        let t = self.id(to);
        self.edges.push((from, t, kind));
    }

    fn mono<T: ty::TypeFoldable<TyCtxt<'tcx>>>(&self, inst: Instance<'tcx>, v: T) -> Option<T> {
        inst.try_instantiate_mir_and_normalize_erasing_regions(
            self.tcx,
            TypingEnv::fully_monomorphized(),
            EarlyBinder::bind(v),
        )
        .ok()
    }

    fn fn_operand(&mut self, from: usize, inst: Instance<'tcx>, fty: Ty<'tcx>, kind: &'static str) {
        let tcx = self.tcx;
        let Some(fty) = self.mono(inst, fty) else {
            self.notes.push((from, "normalization failed".into()));
            return;
        };
        match *fty.kind() {
            ty::FnDef(d, args) => {
                if !matches!(tcx.def_kind(d), DefKind::Fn | DefKind::AssocFn | DefKind::Ctor(..)) {
                    return;
                }
                match Instance::try_resolve(tcx, TypingEnv::fully_monomorphized(), d, args) {
                    Ok(Some(i)) => self.edge(from, i, kind),
                    _ => self.notes.push((from, format!("unresolved {}", tcx.def_path_str_with_args(d, args)))),
                }
            }
            ty::FnPtr(..) => self.notes.push((from, "indirect call through fn pointer".into())),
            ty::Closure(d, args) => {
                self.edge(from, Instance::new_raw(d, args), kind);
            }
            _ => {}
        }
    }

    fn visit_operand(&mut self, from: usize, inst: Instance<'tcx>, body: &Body<'tcx>, op: &Operand<'tcx>) {
        if let Operand::Constant(c) = op {
            let t = c.const_.ty();
            if let ty::FnDef(..) = t.kind() {
                self.fn_operand(from, inst, t, "fnref");
            }
        }
    }

    fn walk(&mut self, n: usize) {
        let tcx = self.tcx;
        let inst = self.nodes[n];
        let body: &Body<'tcx> = match inst.def {
            InstanceKind::Item(d) => {
                if tcx.is_foreign_item(d) || tcx.intrinsic(d).is_some() {
                    return;
                }
                if !matches!(
                    tcx.def_kind(d),
                    DefKind::Fn | DefKind::AssocFn | DefKind::Closure | DefKind::Ctor(..) | DefKind::SyntheticCoroutineBody
                ) {
                    return;
                }
                if !tcx.is_mir_available(d) {
                    return;
                }
                tcx.instance_mir(inst.def)
            }
            InstanceKind::Intrinsic(_) | InstanceKind::Virtual(..) => return,
            InstanceKind::DropGlue(_, None) => return,
            _ => tcx.instance_mir(inst.def),
        };
        self.has_mir[n] = true;
        // blocks of a local function in which the return place receives an error (`Err(..)` / `?` residual)
        let is_local = inst.def_id().is_local();
        let mut err_blocks: Vec<BasicBlock> = vec![];
        if is_local {
            for (i, bb) in body.basic_blocks.iter_enumerated() {
                for s in &bb.statements {
                    match &s.kind {
                        StatementKind::Assign(b) => {
                            let (pl, rv) = &**b;
                            if pl.local == RETURN_PLACE && pl.projection.is_empty() {
                                if let Rvalue::Aggregate(ak, _) = rv {
                                    if let AggregateKind::Adt(d, v, ..) = **ak {
                                        if tcx.is_diagnostic_item(rustc_span::sym::Result, d) && v.as_u32() == 1 {
                                            err_blocks.push(i);
                                        }
                                    }
                                }
                            }
                        }
                        StatementKind::SetDiscriminant { place, variant_index } => {
                            if place.local == RETURN_PLACE && place.projection.is_empty() && variant_index.as_u32() == 1 {
                                if let ty::Adt(d, _) = body.local_decls[RETURN_PLACE].ty.kind() {
                                    if tcx.is_diagnostic_item(rustc_span::sym::Result, d.did()) {
                                        err_blocks.push(i);
                                    }
                                }
                            }
                        }
                        _ => {}
                    }
                }
                if let Some(t) = &bb.terminator {
                    if let TerminatorKind::Call { func, destination, target: Some(tgt), .. } = &t.kind {
                        if destination.local == RETURN_PLACE && destination.projection.is_empty() {
                            if let ty::FnDef(d, _) = *func.ty(body, tcx).kind() {
                                if tcx.item_name(d).as_str() == "from_residual" {
                                    err_blocks.push(*tgt);
                                }
                            }
                        }
                    }
                }
            }
        }
        let doms = if err_blocks.is_empty() { None } else { Some(body.basic_blocks.dominators()) };
        for (bbi, bb) in body.basic_blocks.iter_enumerated() {
            for s in &bb.statements {
                if let StatementKind::Assign(b) = &s.kind {
                    let (_, rv) = &**b;
                    match rv {
                        Rvalue::Aggregate(ak, ops) => {
                            match **ak {
                                AggregateKind::Closure(d, args) | AggregateKind::Coroutine(d, args) => {
                                    if let Some(args) = self.mono(inst, args) {
                                        self.edge(n, Instance::new_raw(d, args), "closure");
                                    }
                                }
                                _ => {}
                            }
                            for o in ops.iter() {
                                self.visit_operand(n, inst, body, o);
                            }
                        }
                        Rvalue::Cast(ck, op, to) => {
                            self.visit_operand(n, inst, body, op);
                            if let CastKind::PointerCoercion(PointerCoercion::Unsize, _) = ck {
                                let from_t = op.ty(body, tcx);
                                if let (Some(from_t), Some(to_t)) = (self.mono(inst, from_t), self.mono(inst, *to)) {
                                    self.vtable_edges(n, from_t, to_t);
                                }
                            }
                        }
                        Rvalue::Use(op, _) | Rvalue::UnaryOp(_, op) | Rvalue::Repeat(op, _) => {
                            self.visit_operand(n, inst, body, op)
                        }
                        Rvalue::BinaryOp(_, ab) => {
                            self.visit_operand(n, inst, body, &ab.0);
                            self.visit_operand(n, inst, body, &ab.1);
                        }
                        _ => {}
                    }
                }
            }
            let Some(term) = &bb.terminator else { continue };
            match &term.kind {
                TerminatorKind::Call { func, args, .. } | TerminatorKind::TailCall { func, args, .. } => {
                    let fty = func.ty(body, tcx);
                    self.fn_operand(n, inst, fty, "call");
                    for a in args.iter() {
                        self.visit_operand(n, inst, body, &a.node);
                    }
                }
                TerminatorKind::Drop { place, .. } => {
                    let t = place.ty(body, tcx).ty;
                    if let Some(t) = self.mono(inst, t) {
                        let di = Instance::resolve_drop_in_place(tcx, t);
                        if let InstanceKind::DropGlue(_, Some(_)) = di.def {
                            // drops that only run while unwinding from a panic are told apart
                            // ... and so are drops on a path that has already decided to return an error
                            let err_only = match doms {
                                Some(d) => err_blocks.iter().any(|e| d.dominates(*e, bbi)),
                                None => false,
                            };
                            self.edge(n, di, if bb.is_cleanup { "drop_unwind" } else if err_only { "drop_err" } else { "drop" });
                        }
                    }
                }
                _ => {}
            }
        }
    }

    fn vtable_edges(&mut self, n: usize, from_t: Ty<'tcx>, to_t: Ty<'tcx>) {
        let tcx = self.tcx;
        // find the pointee pair (T, dyn Trait)
        fn pointee<'tcx>(t: Ty<'tcx>) -> Option<Ty<'tcx>> {
            match *t.kind() {
                ty::Ref(_, i, _) | ty::RawPtr(i, _) => Some(i),
                ty::Adt(d, args) if d.is_box() => Some(args.type_at(0)),
                ty::Adt(_, args) => {
                    // Pin<Box<T>>, Rc<T>, Arc<T> ...: look at first type arg
                    args.types().next().and_then(|t| pointee(t).or(Some(t)))
                }
                _ => None,
            }
        }
        let (Some(src), Some(dst)) = (pointee(from_t), pointee(to_t)) else { return };
        let (src, dst) = {
            // Pin<Box<T>> -> pointee gives T already via recursion; if dst itself is a pointer, unwrap once more
            let mut s = src;
            let mut d = dst;
            while !matches!(d.kind(), ty::Dynamic(..)) {
                match (pointee(s), pointee(d)) {
                    (Some(a), Some(b)) => {
                        s = a;
                        d = b;
                    }
                    _ => return,
                }
            }
            (s, d)
        };
        if let ty::Dynamic(preds, ..) = dst.kind() {
            if let Some(principal) = preds.principal() {
                let tr = tcx.instantiate_bound_regions_with_erased(principal.with_self_ty(tcx, src));
                for e in tcx.vtable_entries(tr) {
                    if let ty::VtblEntry::Method(i) = e {
                        self.edge(n, *i, "vtable");
                    }
                }
            }
            // drop glue through the vtable
            let di = Instance::resolve_drop_in_place(tcx, src);
            if let InstanceKind::DropGlue(_, Some(_)) = di.def {
                self.edge(n, di, "vtable_drop");
            }
        }
    }
}

pub fn mono_graph<'tcx>(tcx: TyCtxt<'tcx>) -> J {
    let mut w = Walker {
        tcx,
        ids: FxHashMap::default(),
        nodes: vec![],
        has_mir: vec![],
        edges: vec![],
        queue: vec![],
        notes: vec![],
    };
    let mut roots = vec![];
    for def in tcx.hir_crate_items(()).definitions() {
        let did = def.to_def_id();
        match tcx.def_kind(did) {
            DefKind::Fn | DefKind::AssocFn => {
                if tcx.generics_of(did).requires_monomorphization(tcx) {
                    continue;
                }
                if !tcx.is_mir_available(did) {
                    continue;
                }
                let i = Instance::mono(tcx, did);
                let n = w.id(i);
                roots.push(n);
            }
            DefKind::Struct | DefKind::Enum => {
                if tcx.generics_of(did).requires_monomorphization(tcx) {
                    continue;
                }
                let t = tcx.type_of(did).instantiate_identity().skip_norm_wip();
                let di = Instance::resolve_drop_in_place(tcx, t);
                if let InstanceKind::DropGlue(_, Some(_)) = di.def {
                    let n = w.id(di);
                    roots.push(n);
                }
            }
            _ => {}
        }
    }
    while let Some(n) = w.queue.pop() {
        w.walk(n);
    }
    let nodes: Vec<J> = w
        .nodes
        .iter()
        .enumerate()
        .map(|(i, inst)| {
            let d = inst.def_id();
            let mut o = vec![
                ("s", J::s(format!("{}", inst))),
                ("path", J::s(tcx.def_path_str(d))),
                ("kind", J::s(instance_kind_name(&inst.def))),
                ("crate", J::s(tcx.crate_name(d.krate).to_string())),
                ("local", J::Bool(d.is_local())),
                ("mir", J::Bool(w.has_mir[i])),
            ];
            if let InstanceKind::DropGlue(_, Some(t)) = inst.def {
                o.push(("drop_ty", J::s(t.to_string())));
            }
            // signature-ish: argument types, to decide whether the instance handles Expr/Value trees
            let targs: Vec<J> = inst.args.types().map(|t| J::s(t.to_string())).collect();
            o.push(("targs", J::Arr(targs)));
            J::obj(o)
        })
        .collect();
    let edges: Vec<J> = w.edges.iter().map(|(a, b, k)| J::Arr(vec![J::n(a), J::n(b), J::s(*k)])).collect();
    let notes: Vec<J> = w.notes.iter().map(|(a, s)| J::Arr(vec![J::n(a), J::s(s.clone())])).collect();
    J::obj(vec![
        ("nodes", J::Arr(nodes)),
        ("edges", J::Arr(edges)),
        ("roots", J::Arr(roots.into_iter().map(J::n).collect())),
        ("notes", J::Arr(notes)),
    ])
}
