//! Minimal JSON value tree + writer (no dependencies).

#[derive(Clone, Debug)]
pub enum J {
    Null,
    Bool(bool),
    Num(String),
    Str(String),
    Arr(Vec<J>),
    Obj(Vec<(String, J)>),
}

impl J {
    pub fn s(v: impl Into<String>) -> J {
        J::Str(v.into())
    }
    pub fn n(v: impl std::fmt::Display) -> J {
        J::Num(v.to_string())
    }
    pub fn opt_s(v: Option<String>) -> J {
        match v {
            Some(s) => J::Str(s),
            None => J::Null,
        }
    }
    pub fn obj(fields: Vec<(&str, J)>) -> J {
        J::Obj(fields.into_iter().map(|(k, v)| (k.to_string(), v)).collect())
    }
    pub fn write(&self, out: &mut String) {
        match self {
            J::Null => out.push_str("null"),
            J::Bool(b) => out.push_str(if *b { "true" } else { "false" }),
            J::Num(n) => out.push_str(n),
            J::Str(s) => write_str(s, out),
            J::Arr(a) => {
                out.push('[');
                for (i, v) in a.iter().enumerate() {
                    if i > 0 {
                        out.push(',');
                    }
                    v.write(out);
                }
                out.push(']');
            }
            J::Obj(o) => {
                out.push('{');
                for (i, (k, v)) in o.iter().enumerate() {
                    if i > 0 {
                        out.push(',');
                    }
                    write_str(k, out);
                    out.push(':');
                    v.write(out);
                }
                out.push('}');
            }
        }
    }
}

fn write_str(s: &str, out: &mut String) {
    out.push('"');
    for c in s.chars() {
        match c {
            '"' => out.push_str("\\\""),
            '\\' => out.push_str("\\\\"),
            '\n' => out.push_str("\\n"),
            '\r' => out.push_str("\\r"),
            '\t' => out.push_str("\\t"),
            c if (c as u32) < 0x20 => out.push_str(&format!("\\u{:04x}", c as u32)),
            c => out.push(c),
        }
    }
    out.push('"');
}
