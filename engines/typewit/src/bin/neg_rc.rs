// negative twin: must FAIL to type-check with E0277 (Rc is neither Send nor Sync)
fn ss<T: Send + Sync>() {}
fn main() {
    ss::<reval::prelude::Value>();
    ss::<std::rc::Rc<reval::prelude::Value>>();
}
