// negative twin: a future holding an Rc across an await is not Send; must FAIL with E0277
fn send<T: Send>(_: T) {}
async fn tick() {}
fn main() {
    send(async {
        let r = std::rc::Rc::new(reval::prelude::Value::None);
        tick().await;
        drop(r);
    });
}
