// positive twin of neg_rc: differs only by the offending line; must type-check
fn ss<T: Send + Sync>() {}
fn main() {
    ss::<reval::prelude::Value>();
}
