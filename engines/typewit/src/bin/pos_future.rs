// positive twin of neg_future: the same future without the Rc; must type-check
fn send<T: Send>(_: T) {}
async fn tick() {}
fn main() {
    send(async {
        let r = std::sync::Arc::new(reval::prelude::Value::None);
        tick().await;
        drop(r);
    });
}
