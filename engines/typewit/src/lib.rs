//! Compile-only witnesses for C18: this crate is type-checked (cargo check), never run.
//! Every assertion sits on its own line, tagged `//@ <label>`, so that a rustc error can be attributed.
#![allow(dead_code)]
use reval::prelude::*;
use std::future::Future;

fn ss<T: Send + Sync>() {}
fn send<T: Send>(_: T) {}
fn spawnable<F: Future + Send + 'static>(_: F) {}

pub fn public_types_are_send_and_sync() {
    ss::<RuleSet>(); //@ RuleSet: Send + Sync
    ss::<Rule>(); //@ Rule: Send + Sync
    ss::<Expr>(); //@ Expr: Send + Sync
    ss::<Value>(); //@ Value: Send + Sync
    ss::<Symbols>(); //@ Symbols: Send + Sync
    ss::<reval::Error>(); //@ Error: Send + Sync
    ss::<Builder>(); //@ Builder: Send + Sync
    ss::<reval::ruleset::Outcome<'static>>(); //@ Outcome: Send + Sync
    ss::<reval::expr::Index>(); //@ Index: Send + Sync
    ss::<reval::parse::Error>(); //@ parse::Error: Send + Sync
    ss::<Box<dyn UserFunction + Send + Sync>>(); //@ boxed user function: Send + Sync
}

pub fn evaluation_futures_are_send<T: serde::Serialize + Sync>(rs: &RuleSet, e: &Expr, v: &Value, t: &T) {
    send(rs.evaluate_value(v)); //@ future of RuleSet::evaluate_value: Send
    send(e.evaluate(v)); //@ future of Expr::evaluate: Send
    send(rs.evaluate(t)); //@ future of RuleSet::evaluate: Send
}

pub fn evaluation_can_be_spawned() {
    let rs = std::sync::Arc::new(reval::ruleset::ruleset().build());
    let v = Value::None;
    spawnable(async move { let _ = rs.evaluate_value(&v).await; }); //@ shared ruleset evaluation is spawnable (Send + 'static)
}
