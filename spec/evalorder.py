"""Specification of evaluation order / laziness / dispatch per node kind (properties C02, C05).

Written from the property statements, not from the code:  an `if` evaluates its condition and
exactly one branch; and/or evaluate the right operand only when the left one does not decide;
equality does not evaluate the right operand when the left is None; every other operand, list
item and call argument is evaluated exactly once, left to right (map entries in key order);
the first error ends the evaluation.

A path is (conditions, events, result).  Events:
   ('eval', child)                 the evaluator is invoked on that child
   ('op', a0, a1, ...)             the node's operator function receives these values
   ('ctx', method, a0, ...)        a lookup / user call through the evaluation context
   ('push', value) / ('insert', key, value)   element appended to the result list / map
   ('next', source, i) / ('end', source, i)   i-th draw from the collection iterator
`OP` in a result stands for "whatever the operator call returned".
"""

VALUE_TAGS = ["String", "Int", "Float", "Decimal", "Bool", "DateTime", "Duration", "Vec", "Map", "None"]

UNARY = ["Not", "Neg", "Some", "None", "Int", "Float", "Dec", "DateTime", "Duration",
         "UpperCase", "LowerCase", "Trim", "Round", "Floor", "Fract",
         "Year", "Month", "Week", "Day", "Hour", "Minute", "Second"]
BINARY = ["Mult", "Div", "Rem", "Add", "Sub", "GreaterThan", "GreaterThanEquals", "LessThan",
          "LessThanEquals", "BitAnd", "BitOr", "BitXor", "Contains"]
LEAF = ["Value", "Reference", "Symbol"]
SPECIAL = ["Function", "Index", "If", "And", "Or", "Equals", "NotEquals", "Vec", "Map"]

ALL_KINDS = LEAF + SPECIAL + UNARY + BINARY   # 47

LOOP_UNROLL = 2  # iterations the analysis unrolls; expectations are generated to the same bound


def child(kind, i):
    return "self.%s.%d" % (kind, i)


def ev(c):
    return "ev(%s)" % c


def okv(c):
    return ev(c) + ".Ok.0"


def errv(c):
    return "Err(%s.Err.0)" % ev(c)


def P(conds, events, ret):
    return (frozenset(conds), tuple(events), ret)


def strict(kind, n, extra=()):
    cs = [child(kind, i) for i in range(n)]
    paths = []
    for i in range(n):
        conds = [(ev(c), "is Ok") for c in cs[:i]] + [(ev(cs[i]), "is Err")]
        paths.append(P(conds, [("eval", c) for c in cs[:i + 1]], errv(cs[i])))
    conds = [(ev(c), "is Ok") for c in cs]
    events = [("eval", c) for c in cs] + [("op",) + tuple(okv(c) for c in cs) + tuple(extra)]
    paths.append(P(conds, events, "OP"))
    return paths


def to_bool(c, then_paths_true, then_paths_false):
    """paths for `evaluate c, require a boolean`: error / non-bool / true.. / false.."""
    paths = [P([(ev(c), "is Err")], [("eval", c)], errv(c))]
    for t in VALUE_TAGS:
        if t != "Bool":
            paths.append(P([(ev(c), "is Ok"), (okv(c), "is " + t)], [("eval", c)], "Err(InvalidType)"))
    base = [(ev(c), "is Ok"), (okv(c), "is Bool")]
    for conds, events, ret in then_paths_true:
        paths.append(P(base + [(okv(c) + ".Bool.0", "true")] + list(conds), [("eval", c)] + list(events), ret))
    for conds, events, ret in then_paths_false:
        paths.append(P(base + [(okv(c) + ".Bool.0", "false")] + list(conds), [("eval", c)] + list(events), ret))
    return paths


def expected(kind, unroll=None):
    UN = unroll or LOOP_UNROLL
    if kind == "Value":
        return [P([], [], "Ok(self.Value.0)")]
    if kind == "Reference":
        return [P([], [("ctx", "reference", "self.Reference.0")], "CTX")]
    if kind == "Symbol":
        return [P([], [("ctx", "symbol", "self.Symbol.0")], "CTX")]
    if kind == "Function":
        c = child(kind, 1)
        return [
            P([(ev(c), "is Err")], [("eval", c)], errv(c)),
            P([(ev(c), "is Ok")], [("eval", c), ("ctx", "call_function", "self.Function.0", okv(c))], "await(CTX)"),
        ]
    if kind == "Index":
        return strict(kind, 1, extra=("self.Index.1",))
    if kind in UNARY:
        return strict(kind, 1)
    if kind in BINARY:
        return strict(kind, 2)
    if kind == "If":
        c0, c1, c2 = (child(kind, i) for i in range(3))
        return to_bool(c0, [((), [("eval", c1)], ev(c1))], [((), [("eval", c2)], ev(c2))])
    if kind in ("And", "Or"):
        c0, c1 = child(kind, 0), child(kind, 1)
        # the right operand must itself be a boolean; its value is the result
        right = [P([(ev(c1), "is Err")], [("eval", c1)], errv(c1))]
        for t in VALUE_TAGS:
            if t != "Bool":
                right.append(P([(ev(c1), "is Ok"), (okv(c1), "is " + t)], [("eval", c1)], "Err(InvalidType)"))
        right.append(P([(ev(c1), "is Ok"), (okv(c1), "is Bool")], [("eval", c1)], "Ok(%s)" % okv(c1)))
        right = [(tuple(c), tuple(e), r) for c, e, r in right]
        if kind == "And":
            return to_bool(c0, right, [((), [], "Ok(Bool(False))")])
        return to_bool(c0, [((), [], "Ok(Bool(True))")], right)
    if kind in ("Equals", "NotEquals"):
        c0, c1 = child(kind, 0), child(kind, 1)
        neg = kind == "NotEquals"
        paths = [P([(ev(c0), "is Err")], [("eval", c0)], errv(c0))]
        # left None: right is not evaluated
        paths.append(P([(ev(c0), "is Ok"), (okv(c0), "is None")], [("eval", c0)], "Ok(Bool(%s))" % ("True" if neg else "False")))
        for t in VALUE_TAGS:
            if t == "None":
                continue
            base = [(ev(c0), "is Ok"), (okv(c0), "is " + t)]
            paths.append(P(base + [(ev(c1), "is Err")], [("eval", c0), ("eval", c1)], errv(c1)))
            eq = "Value::eq(%s, %s)" % (okv(c0), okv(c1))
            paths.append(P(base + [(ev(c1), "is Ok")], [("eval", c0), ("eval", c1)],
                           "Ok(Bool(%s))" % (("Not(%s)" % eq) if neg else eq)))
        return paths
    if kind in ("Vec", "Map"):
        src = "into_iter(self.%s.0)" % kind
        paths = []

        def elem(i):
            return "elem%d(%s)" % (i, src)
        for k in range(UN + 1):
            # k successful iterations, then the end of the collection
            conds, events = [], []
            for i in range(k):
                e = elem(i) + (".1" if kind == "Map" else "")
                conds += [("next(%s, #%d)" % (src, i), "ok"), (ev(e), "is Ok")]
                events += [("next", src, i), ("eval", e)]
                events += [("insert", elem(i) + ".0", okv(e))] if kind == "Map" else [("push", okv(e))]
            conds_end = conds + [("next(%s, #%d)" % (src, k), "fails")]
            paths.append(P(conds_end, events + [("end", src, k)], "Ok(COLLECTION)"))
            if k < UN:
                e = elem(k) + (".1" if kind == "Map" else "")
                paths.append(P(conds + [("next(%s, #%d)" % (src, k), "ok"), (ev(e), "is Err")],
                               events + [("next", src, k), ("eval", e)], errv(e)))
        return paths
    raise KeyError(kind)
