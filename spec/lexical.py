"""Lexical specification of the rule language (statement of C08), independent of the grammar file.

LITERALS: token -> (Value variant, conversion, characters stripped at the front / back, fixed prefix, radix)
REQUIRED: token -> regex of every spelling the property promises (must be inside the token's language)
ACCEPTED_BY_CONVERSION: conversion -> regex of the texts the std / rust_decimal conversion interprets as the
    written number (anything outside is rejected with an error, never mis-read); the token body must be inside.
"""

LITERALS = {
    "INT": dict(variant="Int", conv="i128::from_str", front=1, back=0, prefix="i", radix=None),
    "HEX_INT": dict(variant="Int", conv="i128::from_str_radix", front=2, back=0, prefix="0x", radix=16),
    "OCT_INT": dict(variant="Int", conv="i128::from_str_radix", front=2, back=0, prefix="0o", radix=8),
    "BIN_INT": dict(variant="Int", conv="i128::from_str_radix", front=2, back=0, prefix="0b", radix=2),
    "FLOAT": dict(variant="Float", conv="f64::from_str", front=1, back=0, prefix="f", radix=None),
    "DECIMAL": dict(variant="Decimal", conv="Decimal::from_str", front=1, back=0, prefix="d", radix=None),
    "STRING": dict(variant="String", conv="unescape", front=1, back=1, prefix='"', suffix='"', radix=None),
}
CONSTANTS = {"TRUE": "Bool(True)", "FALSE": "Bool(False)", "KWD_NONE": "None"}

REQUIRED = {
    "INT": r"i\-?[0-9]+",
    "HEX_INT": r"0x[0-9a-fA-F]+",
    "OCT_INT": r"0o[0-7]+",
    "BIN_INT": r"0b[01]+",
    "FLOAT": r"f\-?[0-9]+(\.[0-9]+)?([eE][\-\+]?[0-9]+)?",
    "DECIMAL": r"d\-?[0-9]+(\.[0-9]+)?",
    "STRING": "\"([\\0-!#-\\[\\]-\U0010ffff]|\\\\[\\0-\\t\x0b-\U0010ffff])*\"",
}
# texts a conversion ACCEPTS with a reading other than plain positional notation (read in the sources of std /
# rust_decimal): a token body must not contain any of them, otherwise the literal would not denote what is
# written.  Texts a conversion rejects are harmless (parse error).  Integer conversions accept nothing exotic.
EXOTIC_ACCEPTED = {
    "i128::from_str": None,
    "i128::from_str_radix:16": None, "i128::from_str_radix:8": None, "i128::from_str_radix:2": None,
    # f64::from_str also reads inf / infinity / nan (any case, optional sign)
    "f64::from_str": r"[\+\-]?([iI][nN][fF]([iI][nN][iI][tT][yY])?|[nN][aA][nN])",
    # Decimal::from_str also reads digit groups separated by underscores
    "Decimal::from_str": r"[0-9_\+\-\.]*_[0-9_\+\-\.]*",
}

ESCAPES = {ord("n"): 10, ord("r"): 13, ord("t"): 9, ord("\\"): 92, ord("'"): 39, ord('"'): 34}
UNICODE_ESCAPE = ord("u")

IDENT = r"[a-zA-Z][_a-zA-Z0-9]*"
IDENT_CONT = r"[_a-zA-Z0-9]"
# Unicode White_Space
WHITESPACE = "[\t-\r \x85\xa0  -     　]"
COMMENT = "//[\\0-\t\x0b\x0c\x0e-\U0010ffff]*[\n\r]*"

# terminals that may win an equal-length tie against another pattern (winner, loser)
EXPECTED_TIES = [("INT", "IDENT"), ("FLOAT", "IDENT"), ("DECIMAL", "IDENT")]
