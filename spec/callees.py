"""Classification of external callees met on analysed paths (DESIGN.md §2).

 total    never panics and never narrows silently, for any argument  (one line of reason each)
 partial  may panic
 silent   succeeds but wraps / saturates / truncates
A callee covered by no explicit line and no family rule is *unclassified*: listed in the evidence,
counted, assumed total (so that a new call to an unknown total function is not a false alarm).
Names are the short canonical names of rules/norm.py:short_callee, or regexes over the full path.
"""
import re

# ---- family rules over the full resolved path (first match wins) -----------------------------
PARTIAL_SEGMENT = re.compile(r"(^|::)(unwrap|expect|panic|unreachable|todo|unimplemented|assert)[a-z_]*($|::|<)")
SILENT_SEGMENT = re.compile(r"(^|::)(wrapping_|saturating_|overflowing_|unchecked_|to_int_unchecked)[a-z_0-9]*($|::|<)")
OPS_TRAIT = re.compile(r"std::ops::(Add|Sub|Mul|Div|Rem|Neg|Shl|Shr|Index|IndexMut|AddAssign|SubAssign|MulAssign|DivAssign|RemAssign)\b")
CHRONO_PANICKING_CTOR = re.compile(r"chrono::TimeDelta::(seconds|minutes|hours|days|weeks|milliseconds)$")
PANIC_PATHS = re.compile(r"(core|std)::(panicking|rt::begin_panic|option::expect_failed|option::unwrap_failed|result::unwrap_failed|slice::index|str::slice_error_fail)")

PARTIAL_EXPLICIT = {
    "Decimal::from<i128>": "rust_decimal: From<i128> unwraps Decimal::from_i128 (panics above 96 bits)",
    "Decimal::from<u128>": "as above",
    "Decimal::from<f64>": "not provided / would unwrap",
    "Decimal::new": "panics when scale > 28",
    "Decimal::from_i128_with_scale": "panics on overflow",
    "RefCell::borrow": "panics when mutably borrowed", "RefCell::borrow_mut": "panics when borrowed",
    "[T]::copy_from_slice": "panics on length mismatch",
    "Vec::remove": "panics out of range", "Vec::swap_remove": "panics out of range", "Vec::insert": "panics out of range",
    "Vec::split_off": "panics out of range", "Vec::drain": "panics out of range",
    "String::remove": "panics out of range", "String::insert": "panics", "str::split_at": "panics",
    "char::from_digit": "panics for radix > 36", "i128::pow": "overflow panics in debug", "i128::abs": "overflow for MIN",
    "Duration::from_secs_f64": "panics on negative / overflow",
    "DateTime::from_timestamp_nanos": "total actually", 
    "Utc::with_ymd_and_hms": "returns LocalResult; unwrap is the hazard, not this",
    "NaiveDate::from_ymd": "deprecated panicking constructor", "NaiveDateTime::from_timestamp": "deprecated panicking constructor",
    "Decimal::round_dp_with_strategy": "total", 
}
for k in ("DateTime::from_timestamp_nanos", "Utc::with_ymd_and_hms", "Decimal::round_dp_with_strategy"):
    PARTIAL_EXPLICIT.pop(k)

# ---- reviewed total functions (read in the dependency sources of the cargo registry / std) -------
TOTAL = {
    # integers / floats
    "i128::checked_add": "Option on overflow", "i128::checked_sub": "Option", "i128::checked_mul": "Option",
    "i128::checked_div": "None on zero divisor and MIN/-1", "i128::checked_rem": "None on zero divisor and MIN/-1",
    "i128::checked_neg": "Option", "i128::from_str": "Result", "i128::from_str_radix": "Result for radix in 2..=36 (constant radix at every site)",
    "u32::from_str_radix": "Result", "usize::from_str": "Result", "f64::from_str": "Result",
    "i64::try_from<i128>": "exact range check", "i128::try_from<u128>": "exact range check",
    "f64::floor": "IEEE", "f64::round": "IEEE", "f64::fract": "IEEE", "f64::to_i128": "num-traits: None outside range / NaN",
    "char::from_u32": "Option",
    # decimal
    "Decimal::checked_add": "Option", "Decimal::checked_sub": "Option", "Decimal::checked_mul": "Option",
    "Decimal::checked_div": "None on zero / overflow", "Decimal::checked_rem": "None on zero",
    "Decimal::from_str": "Result", "Decimal::from_i128": "FromPrimitive: None above 96 bits", "Decimal::to_i128": "Option",
    "Decimal::to_f64": "Option", "Decimal::try_from<f64>": "Result", "Decimal::floor": "total", "Decimal::round": "total (round_dp(0))",
    "Decimal::fract": "total", "Decimal::neg": "sign flip, cannot overflow",
    "Decimal::lt": "comparison", "Decimal::le": "comparison", "Decimal::gt": "comparison", "Decimal::ge": "comparison",
    # chrono
    "TimeDelta::try_seconds": "Option", "TimeDelta::try_minutes": "Option", "TimeDelta::try_hours": "Option",
    "TimeDelta::try_days": "Option", "TimeDelta::try_weeks": "Option", "TimeDelta::try_milliseconds": "Option",
    "TimeDelta::num_weeks": "division", "TimeDelta::num_days": "division", "TimeDelta::num_hours": "division",
    "TimeDelta::num_minutes": "division", "TimeDelta::num_seconds": "field read",
    "TimeDelta::checked_add": "Option", "TimeDelta::checked_sub": "Option",
    "DateTime::from_timestamp": "Option", "DateTime::checked_add_signed": "Option", "DateTime::checked_sub_signed": "Option",
    "DateTime::year": "field", "DateTime::month": "field", "DateTime::day": "field", "DateTime::hour": "field",
    "DateTime::minute": "field", "DateTime::second": "field", "DateTime::signed_duration_since": "total (range of DateTime fits TimeDelta)",
    "DateTime::lt": "comparison", "DateTime::le": "comparison", "DateTime::gt": "comparison", "DateTime::ge": "comparison",
    "TimeDelta::lt": "comparison", "TimeDelta::le": "comparison", "TimeDelta::gt": "comparison", "TimeDelta::ge": "comparison",
    "str::parse": "Result (FromStr)",
    # collections / strings
    "BTreeMap::get": "Option", "BTreeMap::insert": "total", "BTreeMap::new": "total", "BTreeMap::contains_key": "total",
    "BTreeMap::append": "total", "BTreeMap::remove": "Option", "BTreeMap::iter": "total", "BTreeMap::into_iter": "total",
    "[T]::get": "Option", "[Value]::get": "Option", "[Value]::contains": "uses PartialEq", "[T]::iter": "total", "[Rule]::iter": "total",
    "Vec::new": "total", "Vec::push": "total (allocation failure excluded)", "Vec::with_capacity": "capacity overflow only for absurd sizes (len comes from serde size hints)",
    "str::contains": "total", "str::trim": "total", "str::to_uppercase": "total", "str::to_lowercase": "total",
    "str::to_owned": "total", "str::to_string": "total", "String::clone": "total", "String::deref": "total", "String::from": "total",
    "String::push": "total", "String::with_capacity": "total", "str::chars": "total", "str::len": "total", "str::lines": "total",
    "str::strip_prefix": "Option", "str::trim_start": "total",
    # option / result / control
    "Option::map": "combinator", "Option::ok_or": "combinator", "Option::ok_or_else": "combinator", "Option::and_then": "combinator",
    "Option::unwrap_or": "total despite the name: returns the default", "Option::unwrap_or_else": "total despite the name", "Option::unwrap_or_default": "total despite the name",
    "Option::cloned": "combinator", "Option::take": "total", "Option::is_none": "total", "Option::is_some": "total",
    "Result::map": "combinator", "Result::map_err": "combinator", "Result::ok": "combinator", "Result::cloned": "combinator",
    "Result::and_then": "combinator", "Result::unwrap_or": "total despite the name", "Result::unwrap_or_else": "total despite the name", "Result::unwrap_or_default": "total despite the name",
    "Result::branch": "? operator", "Result::from_residual": "? operator", "Option::branch": "? operator", "Option::from_residual": "? operator",
    "Pin::new_unchecked": "await desugaring", "Pin::poll": "await desugaring", "Pin::into_future": "await desugaring",
    "future::get_context": "await desugaring", "Box::pin": "allocation", "Box::new": "allocation",
    "Arguments::new": "format_args!", "Argument::new_debug": "format_args!", "Argument::new_display": "format_args!", "fmt::format": "format!",
    "hint::must_use": "identity", "intrinsics::discriminant_value": "intrinsic",
}

# names that contain a "partial" segment but are total (checked before the family rules)
TOTAL_DESPITE_NAME = {"Option::unwrap_or", "Option::unwrap_or_else", "Option::unwrap_or_default",
                      "Result::unwrap_or", "Result::unwrap_or_else", "Result::unwrap_or_default"}


# std traits whose methods, for the std / chrono / rust_decimal types met here, neither panic nor narrow
TOTAL_TRAITS = {
    "std::clone::Clone": "copies the value", "std::cmp::PartialEq": "comparison", "std::cmp::PartialOrd": "comparison",
    "std::cmp::Ord": "comparison", "std::cmp::Eq": "comparison",
    "std::future::IntoFuture": "await desugaring", "std::future::Future": "await desugaring (poll of the awaited future)",
    "std::ops::Deref": "Vec/String/Box/lazy_static deref", "std::ops::DerefMut": "deref",
    "std::iter::IntoIterator": "creates an iterator", "std::iter::Iterator": "std iterator step / adaptor (lazy)",
    "std::string::ToString": "formats into a String", "std::borrow::ToOwned": "copies", "std::default::Default": "default value",
    "std::convert::AsRef": "reference conversion", "std::borrow::Borrow": "reference conversion",
    "std::ops::Try": "? operator", "std::ops::FromResidual": "? operator",
    "std::iter::FromIterator": "collect", "std::iter::Extend": "extend",
    "std::fmt::Display": "formatting", "std::fmt::Debug": "formatting", "std::str::FromStr": "Result-returning parse",
    "chrono::Datelike": "calendar field of a valid date", "chrono::Timelike": "clock field of a valid time",
    "rust_decimal::prelude::ToPrimitive": "Option-returning conversion", "rust_decimal::prelude::FromPrimitive": "Option-returning conversion",
    "std::ops::Fn": "closure call", "std::ops::FnMut": "closure call", "std::ops::FnOnce": "closure call",
    "std::ops::Not": "bit complement", "std::ops::BitAnd": "bitwise", "std::ops::BitOr": "bitwise", "std::ops::BitXor": "bitwise",
    "std::hash::Hash": "hashing", "std::error::Error": "error trait", "std::any::Any": "type id",
}


def classify(full, short, fn=None):
    """-> (class, reason)   class in total | partial | silent | unclassified"""
    if short in TOTAL_DESPITE_NAME:
        return "total", TOTAL[short]
    if PANIC_PATHS.search(full):
        return "partial", "panic machinery"
    if short in PARTIAL_EXPLICIT:
        return "partial", PARTIAL_EXPLICIT[short]
    if SILENT_SEGMENT.search(full):
        return "silent", "wrapping/saturating/unchecked family"
    if PARTIAL_SEGMENT.search(full):
        return "partial", "unwrap/expect/panic family"
    if CHRONO_PANICKING_CTOR.search(full.split("::<")[0] if full.endswith(">") else full):
        return "partial", "chrono non-try_ TimeDelta constructor panics out of range"
    tr = (fn or {}).get("trait") or ""
    if OPS_TRAIT.search(tr) or OPS_TRAIT.search(full):
        # primitive arithmetic never appears as a call in MIR, so this is an overloaded operator on a library type
        if short == "Decimal::neg":
            return "total", TOTAL[short]
        if re.search(r"std::ops::(Index|IndexMut)\b", tr or full):
            if "RangeFull" in full:
                return "total", "x[..] is the whole string / slice"
            return "partial", "indexing operator (panics when out of range / key absent)"
        if short == "DateTime::sub" :
            return "total", "DateTime - DateTime = signed_duration_since; both operands are valid DateTimes so the difference fits TimeDelta"
        return "partial", "overloaded arithmetic operator on a library type (panics on overflow)"
    if short in TOTAL:
        return "total", TOTAL[short]
    if tr in TOTAL_TRAITS:
        return "total", "method of %s (%s)" % (tr, TOTAL_TRAITS[tr])
    return "unclassified", ""
