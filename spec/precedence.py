"""The one fixed precedence / associativity table of the rule language (statement of C07), written as a
stratified grammar with semantic actions.  Terminals are the grammar's terminal names; action terms use
$i for the value of the i-th right-hand-side symbol.

 loosest -> tightest:  if/then/else ; and or ; == = != > < >= <= ; + - ; * / % ; & | ^ ; contains/in ;
                       unary - ! ; .field/.index ; atoms
 every binary level is left-associative; contains/in cannot be chained (operands are access-level
 expressions); `x in y` means `y contains x`; parentheses only group; alternative spellings denote the
 same node.
"""

BINARY_LEVELS = [
    # (name, [(token, constructor)...])   loosest first
    ("Log", [("KWD_AND", "And"), ("KWD_OR", "Or")]),
    ("Eq", [("OP_EQ1", "Equals"), ("OP_EQ2", "Equals"), ("OP_NEQ", "NotEquals"), ("OP_GT", "GreaterThan"),
            ("OP_LT", "LessThan"), ("OP_GTE", "GreaterThanEquals"), ("OP_LTE", "LessThanEquals")]),
    ("Add", [("OP_ADD", "Add"), ("OP_SUB", "Sub")]),
    ("Mul", [("OP_MULT", "Mult"), ("OP_DIV", "Div"), ("OP_REM", "Rem")]),
    ("Bit", [("OP_BIT_AND", "BitAnd"), ("OP_BIT_OR", "BitOr"), ("OP_BIT_XOR", "BitXor")]),
]

# built-in one-argument functions:  keyword token -> constructor  (aliases share a constructor)
FUNCTIONS = [
    ("KWD_INT", "Int"), ("KWD_FLOAT", "Float"), ("KWD_DEC", "Dec"),
    ("KWD_DATE_TIME", "DateTime"), ("KWD_DATETIME", "DateTime"), ("KWD_DURATION", "Duration"),
    ("KWD_IS_SOME", "Some"), ("KWD_SOME", "Some"), ("KWD_IS_NONE", "None"), ("KWD_NONE", "None"),
    ("KWD_TO_UPPER", "UpperCase"), ("KWD_UPPERCASE", "UpperCase"), ("KWD_TO_LOWER", "LowerCase"), ("KWD_LOWERCASE", "LowerCase"),
    ("KWD_TRIM", "Trim"), ("KWD_ROUND", "Round"), ("KWD_FLOOR", "Floor"), ("KWD_FRACT", "Fract"),
    ("KWD_YEAR", "Year"), ("KWD_MONTH", "Month"), ("KWD_WEEK", "Week"), ("KWD_DAY", "Day"),
    ("KWD_HOUR", "Hour"), ("KWD_MINUTE", "Minute"), ("KWD_SECOND", "Second"),
]

# literal tokens -> how the literal value is obtained (a fallible conversion of the token text, see C08)
LITERALS = [("STRING", "lit:string"), ("INT", "lit:int"), ("HEX_INT", "lit:hex"), ("OCT_INT", "lit:oct"),
            ("BIN_INT", "lit:bin"), ("FLOAT", "lit:float"), ("DECIMAL", "lit:decimal")]


def productions():
    """list of (lhs, [rhs symbols], action term)"""
    P = []
    P.append(("Expr", ["If"], "$0"))
    P.append(("If", ["KWD_IF", "If", "KWD_THEN", "If", "KWD_ELSE", "If"], "If($1, $3, $5)"))
    P.append(("If", ["Log"], "$0"))
    names = [l[0] for l in BINARY_LEVELS] + ["Cont"]
    for i, (name, ops) in enumerate(BINARY_LEVELS):
        tighter = names[i + 1]
        for tok, ctor in ops:
            P.append((name, [name, tok, tighter], "%s($0, $2)" % ctor))     # left recursion = left associativity
        P.append((name, [tighter], "$0"))
    P.append(("Cont", ["Idx", "KWD_CONTAINS", "Idx"], "Contains($0, $2)"))   # operands one level below unary: no chaining
    P.append(("Cont", ["Idx", "KWD_IN", "Idx"], "Contains($2, $0)"))         # x in y == y contains x
    P.append(("Cont", ["Un"], "$0"))
    P.append(("Un", ["OP_SUB", "Un"], "Neg($1)"))
    P.append(("Un", ["OP_NOT", "Un"], "Not($1)"))
    P.append(("Un", ["Idx"], "$0"))
    P.append(("Idx", ["Idx", "DOT", "IDENT"], "Index($0, Map($2))"))
    P.append(("Idx", ["Idx", "DOT", "INDEX"], "Index($0, Vec(usize($2)))"))
    P.append(("Idx", ["Term"], "$0"))
    for t in ("Func", "Ref", "Symbol", "VecExpr", "MapExpr"):
        P.append(("Term", [t], "$0"))
    P.append(("Term", ["Value"], "Value($0)"))
    P.append(("Term", ["LPAREN", "Expr", "RPAREN"], "$1"))                      # parentheses only group
    for tok, ctor in FUNCTIONS:
        P.append(("Func", [tok, "LPAREN", "Expr", "RPAREN"], "%s($2)" % ctor))
    P.append(("Func", ["IDENT", "LPAREN", "Expr", "RPAREN"], "Function($0, $2)"))
    P.append(("Ref", ["IDENT"], "Reference($0)"))
    P.append(("Symbol", ["COLON", "IDENT"], "Symbol($1)"))
    # [ e, e, ... ]  with optional trailing comma  /  { k: e, ... }
    P.append(("VecExpr", ["LBRACKET", "RBRACKET"], "Vec([])"))
    P.append(("VecExpr", ["LBRACKET", "Expr", "RBRACKET"], "Vec([$1])"))
    P.append(("VecExpr", ["LBRACKET", "ExprList", "RBRACKET"], "Vec($1)"))
    P.append(("VecExpr", ["LBRACKET", "ExprList", "Expr", "RBRACKET"], "Vec($1 ++ [$2])"))
    P.append(("ExprList", ["Expr", "COMMA"], "[$0]"))
    P.append(("ExprList", ["ExprList", "Expr", "COMMA"], "$0 ++ [$1]"))
    P.append(("MapExpr", ["LBRACE", "RBRACE"], "Map([])"))
    P.append(("MapExpr", ["LBRACE", "MapItem", "RBRACE"], "Map([$1])"))
    P.append(("MapExpr", ["LBRACE", "ItemList", "RBRACE"], "Map($1)"))
    P.append(("MapExpr", ["LBRACE", "ItemList", "MapItem", "RBRACE"], "Map($1 ++ [$2])"))
    P.append(("ItemList", ["MapItem", "COMMA"], "[$0]"))
    P.append(("ItemList", ["ItemList", "MapItem", "COMMA"], "$0 ++ [$1]"))
    P.append(("MapItem", ["IDENT", "COLON", "Expr"], "tuple($0, $2)"))
    for tok, how in LITERALS:
        P.append(("Value", [tok], "lit($0)"))     # which conversion each literal token gets is C08's table (`how`)
    P.append(("Value", ["TRUE"], "Bool(True)"))
    P.append(("Value", ["FALSE"], "Bool(False)"))
    P.append(("Value", ["KWD_NONE"], "None"))
    # a rule: metadata items, then the same expression language
    P.append(("Rule", ["Expr"], "rule([], $0)"))
    P.append(("Rule", ["MetaList", "Expr"], "rule($0, $1)"))
    P.append(("MetaList", ["MetaItem"], "[$0]"))
    P.append(("MetaList", ["MetaList", "MetaItem"], "$0 ++ [$1]"))
    P.append(("MetaItem", ["OP_META", "IDENT", "COLON", "Expr", "SEMICOLON"], "tuple($1, $3)"))
    return P


STARTS = {"__Expr": "Expr", "__Rule": "Rule"}


# how each terminal of the table is spelled in rule text (class tokens: one representative spelling)
TEXT = {
    "OP_EQ1": "=", "OP_EQ2": "==", "OP_NEQ": "!=", "OP_GT": ">", "OP_LT": "<", "OP_GTE": ">=", "OP_LTE": "<=",
    "OP_ADD": "+", "OP_SUB": "-", "OP_MULT": "*", "OP_DIV": "/", "OP_REM": "%", "OP_NOT": "!",
    "OP_BIT_AND": "&", "OP_BIT_OR": "|", "OP_BIT_XOR": "^", "OP_META": "@",
    "KWD_AND": "and", "KWD_OR": "or", "KWD_IF": "if", "KWD_THEN": "then", "KWD_ELSE": "else",
    "KWD_IS_SOME": "is_some", "KWD_IS_NONE": "is_none", "KWD_NONE": "none", "KWD_SOME": "some",
    "KWD_INT": "int", "KWD_FLOAT": "float", "KWD_DEC": "dec", "KWD_CONTAINS": "contains", "KWD_IN": "in",
    "KWD_DATE_TIME": "date_time", "KWD_DATETIME": "datetime", "KWD_DURATION": "duration",
    "KWD_TO_UPPER": "to_upper", "KWD_TO_LOWER": "to_lower", "KWD_UPPERCASE": "uppercase", "KWD_LOWERCASE": "lowercase",
    "KWD_TRIM": "trim", "KWD_ROUND": "round", "KWD_FLOOR": "floor", "KWD_FRACT": "fract",
    "KWD_YEAR": "year", "KWD_MONTH": "month", "KWD_WEEK": "week", "KWD_DAY": "day", "KWD_HOUR": "hour",
    "KWD_MINUTE": "minute", "KWD_SECOND": "second",
    "COMMA": ",", "COLON": ":", "SEMICOLON": ";", "DOT": ".", "LPAREN": "(", "RPAREN": ")",
    "LBRACKET": "[", "RBRACKET": "]", "LBRACE": "{", "RBRACE": "}",
    "STRING": '"s"', "INT": "i5", "HEX_INT": "0x1f", "OCT_INT": "0o17", "BIN_INT": "0b101", "FLOAT": "f1.5", "DECIMAL": "d2.5",
    "TRUE": "true", "FALSE": "false", "IDENT": "abc", "INDEX": "7",
}
