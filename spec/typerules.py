"""Type rules of the operator table, written from the statements of C03 and C04 (not from the code).

SUPPORTED[kind] = the operand-type tuples (without None) an operator accepts; every other tuple
without a None must be a type error.  The None rules give the outcome of every tuple that
contains a None operand."""

NUM = ["Int", "Float", "Decimal"]
SAME_NUM = [(t, t) for t in NUM]
ORDERED = SAME_NUM + [("DateTime", "DateTime"), ("Duration", "Duration")]
TAGS = ["String", "Int", "Float", "Decimal", "Bool", "DateTime", "Duration", "Vec", "Map", "None"]
NON_NONE = [t for t in TAGS if t != "None"]

SUPPORTED = {
    "Add": SAME_NUM + [("DateTime", "Duration")],
    "Sub": SAME_NUM + [("DateTime", "DateTime"), ("DateTime", "Duration"), ("Duration", "Duration")],
    "Mult": SAME_NUM, "Div": SAME_NUM, "Rem": SAME_NUM,
    "GreaterThan": ORDERED, "GreaterThanEquals": ORDERED, "LessThan": ORDERED, "LessThanEquals": ORDERED,
    "BitAnd": [("Int", "Int"), ("Bool", "Bool")],
    "BitOr": [("Int", "Int"), ("Bool", "Bool")],
    "BitXor": [("Int", "Int"), ("Bool", "Bool")],
    "Contains": [("Map", "String"), ("String", "String"), ("Int", "Int")] + [("Vec", t) for t in NON_NONE],
    "Not": [("Bool",)],
    "Neg": [("Int",), ("Float",), ("Decimal",)],
    "Some": [(t,) for t in NON_NONE], "None": [(t,) for t in NON_NONE],
    "Int": [("Int",), ("Float",), ("Decimal",), ("String",)],
    "Float": [("Int",), ("Float",), ("Decimal",), ("String",)],
    "Dec": [("Int",), ("Float",), ("Decimal",), ("String",)],
    "DateTime": [("String",), ("Int",), ("DateTime",)],
    "Duration": [("Int",), ("Duration",)],
    "UpperCase": [("String",)], "LowerCase": [("String",)], "Trim": [("String",)],
    "Round": [("Float",), ("Decimal",)], "Floor": [("Float",), ("Decimal",)], "Fract": [("Float",), ("Decimal",)],
    "Year": [("DateTime",)], "Month": [("DateTime",)],
    "Week": [("Int",), ("Duration",)],
    "Day": [("Int",), ("DateTime",), ("Duration",)], "Hour": [("Int",), ("DateTime",), ("Duration",)],
    "Minute": [("Int",), ("DateTime",), ("Duration",)], "Second": [("Int",), ("DateTime",), ("Duration",)],
    # Index: (container, kind of step)
    "Index": [("Map", "Map"), ("Vec", "Vec")],
}

# cells in which both payloads must reach the primitive unconverted (no cast of any kind in the result term)
NO_CONVERSION = ["Add", "Sub", "Mult", "Div", "Rem", "GreaterThan", "GreaterThanEquals", "LessThan", "LessThanEquals",
                 "BitAnd", "BitOr", "BitXor", "Contains", "Neg", "Not"]
# only these node kinds may return a value of another type than (one of) their operands' payload types
CAST_KINDS = ["Int", "Float", "Dec", "DateTime", "Duration"]

# ---- None rules (C04)
NONE_TO_NONE = ["Add", "Sub", "Mult", "Div", "Rem", "BitAnd", "BitOr", "BitXor", "Neg", "Not",
                "Int", "Float", "Dec", "DateTime", "Duration", "UpperCase", "LowerCase", "Trim",
                "Round", "Floor", "Fract", "Year", "Month", "Week", "Day", "Hour", "Minute", "Second"]
NONE_TO_FALSE = ["GreaterThan", "GreaterThanEquals", "LessThan", "LessThanEquals"]


def none_rule(kind, combo):
    """expected outcome of a tuple containing None:  exact result string, or ('class', ...)"""
    if kind in NONE_TO_NONE:
        return "Ok(None)"
    if kind in NONE_TO_FALSE:
        return "Ok(Bool(False))"
    if kind == "Some":
        return "Ok(Bool(False))"
    if kind == "None":
        return "Ok(Bool(True))"
    if kind == "Index":
        return "Ok(None)" if combo[0] == "None" else "Err(InvalidType)"
    if kind == "Contains":
        if combo[0] == "None":
            return "Ok(Bool(False))"
        # a None *item*: the ordinary rule of the collection's type
        if combo[0] == "Vec":
            return ("membership", "Vec")
        return "Err(InvalidType)"
    return None
